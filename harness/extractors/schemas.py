"""Translator for C15 (and C19): JSON schemas, regexes, handler -> schema map, except-maps.

generate() -> {"Schemas.lean": ..., "Errors.lean": ...}

Schemas.lean
  * every module-level JSON-schema dict of `placement.schemas.*` (the *runtime* objects, i.e. after
    the modules' own copy.deepcopy edits) as a term of `Placement.Schema`; regular expressions are
    parsed with CPython's own `re._parser` and translated into `Placement.Regex.Re`;
  * every string constant of `placement.schemas.common` as a regex;
  * `handlerSchemas`: which schema each handler passes to `util.extract_json` /
    `util.validate_query_params` / `jsonschema.validate` at which microversions (ast walk of
    placement/handlers/*.py; version tests are evaluated for every version in `microversion.VERSIONS`).

Errors.lean
  * per function of placement/handlers/*.py, placement/util.py, placement/handler.py the ordered
    `except` clauses (exception classes, what the clause does, webob class, status, error code);
  * per route handler the clauses of everything it calls inside those modules (closure);
  * the class hierarchy of `placement.exception`, the error code symbols of `placement.errors`;
  * the key/guard structure of `util.json_error_formatter`.

Fails closed (ExtractError) on anything it does not understand.  Deterministic (sorted output).
Sources are located through `os.path.dirname(placement.__file__)`.
"""
import ast
import importlib
import inspect
import os
import pkgutil
import re
try:
    import re._parser as sre_parse
    import re._constants as sre_c
except ImportError:  # pragma: no cover  (python < 3.11)
    import sre_parse
    import sre_constants as sre_c


class ExtractError(Exception):
    pass


# --------------------------------------------------------------------------- Lean literals

def lean_str(s):
    out = ['"']
    for ch in s:
        o = ord(ch)
        if ch == '"':
            out.append('\\"')
        elif ch == '\\':
            out.append('\\\\')
        elif ch == '\n':
            out.append('\\n')
        elif ch == '\t':
            out.append('\\t')
        elif ch == '\r':
            out.append('\\r')
        elif o < 32 or o == 127 or o > 126:
            if 0xD800 <= o <= 0xDFFF:
                raise ExtractError('surrogate code point in string constant %r' % s)
            out.append('\\u{%x}' % o)
        else:
            out.append(ch)
    out.append('"')
    return ''.join(out)


def lean_char(o):
    if 0xD800 <= o <= 0xDFFF or o > 0x10FFFF:
        raise ExtractError('code point %x is not a Lean Char' % o)
    ch = chr(o)
    if ch == "'":
        return "'\\''"
    if ch == '\\':
        return "'\\\\'"
    if ch == '\n':
        return "'\\n'"
    if ch == '\t':
        return "'\\t'"
    if ch == '\r':
        return "'\\r'"
    if o < 32 or o >= 127:
        return "'\\u{%x}'" % o
    return "'%s'" % ch


def lean_int(n):
    return str(n) if n >= 0 else '(%d)' % n


def lean_list(items):
    return '[' + ', '.join(items) + ']'


def lean_ident(name):
    if not re.match(r'^[A-Za-z_][A-Za-z0-9_]*$', name):
        raise ExtractError('cannot use %r as a Lean identifier' % name)
    return name


# --------------------------------------------------------------------------- regex

def _seq(items):
    items = [i for i in items if i != '.eps']
    if not items:
        return '.eps'
    out = items[-1]
    for it in reversed(items[:-1]):
        out = '(.seq %s %s)' % (it, out)
    return out


def _alt(items):
    out = items[-1]
    for it in reversed(items[:-1]):
        out = '(.alt %s %s)' % (it, out)
    return out


def _class(items):
    neg = False
    ranges = []
    for op, av in items:
        if op is sre_c.NEGATE:
            neg = True
        elif op is sre_c.LITERAL:
            ranges.append((av, av))
        elif op is sre_c.RANGE:
            ranges.append((av[0], av[1]))
        else:
            raise ExtractError('regex: unsupported item %s in character class' % (op,))
    return '(.cls %s %s)' % ('true' if neg else 'false',
                             lean_list('(%s, %s)' % (lean_char(a), lean_char(b)) for a, b in ranges))


def _re_items(parsed):
    out = []
    lit = []

    def flush():
        if lit:
            out.append('(.lit %s)' % lean_list(lean_char(c) for c in lit))
            del lit[:]

    for op, av in parsed:
        if op is sre_c.LITERAL:
            lit.append(av)
            continue
        flush()
        if op is sre_c.IN:
            out.append(_class(av))
        elif op is sre_c.NOT_LITERAL:
            out.append('(.cls true [(%s, %s)])' % (lean_char(av), lean_char(av)))
        elif op is sre_c.ANY:
            out.append('.anyc')
        elif op is sre_c.AT:
            if av is sre_c.AT_BEGINNING:
                out.append('.bol')
            elif av is sre_c.AT_END:
                out.append('.eol')
            elif av is sre_c.AT_END_STRING:
                out.append('.eos')
            else:
                raise ExtractError('regex: unsupported anchor %s' % (av,))
        elif op in (sre_c.MAX_REPEAT, sre_c.MIN_REPEAT):
            lo, hi, sub = av
            hi_s = 'none' if hi is sre_c.MAXREPEAT or hi == sre_c.MAXREPEAT else '(some %d)' % hi
            out.append('(.rep %s %d %s)' % (_seq(_re_items(sub)), lo, hi_s))
        elif op is sre_c.SUBPATTERN:
            group, add_flags, del_flags, sub = av
            if add_flags or del_flags:
                raise ExtractError('regex: inline flags are not supported')
            out.append(_seq(_re_items(sub)))
        elif op is sre_c.BRANCH:
            _, branches = av
            out.append(_alt([_seq(_re_items(b)) for b in branches]))
        else:
            raise ExtractError('regex: unsupported construct %s' % (op,))
    flush()
    return out


def regex_to_lean(pattern):
    if not isinstance(pattern, str):
        raise ExtractError('regex is not a str: %r' % (pattern,))
    try:
        parsed = sre_parse.parse(pattern)
    except re.error as e:
        raise ExtractError('regex %r does not parse: %s' % (pattern, e))
    if parsed.state.flags & ~re.UNICODE:
        raise ExtractError('regex %r sets flags' % pattern)
    return _seq(_re_items(parsed))


# --------------------------------------------------------------------------- JSON values / numbers

def num_to_lean(v, what):
    if isinstance(v, bool):
        raise ExtractError('%s is a bool' % what)
    if isinstance(v, int):
        return '(.fin %s 1)' % lean_int(v)
    if isinstance(v, float):
        if v != v:
            return '.nan'
        if v in (float('inf'), float('-inf')):
            return '.inf' if v > 0 else '.ninf'
        n, d = v.as_integer_ratio()
        return '(.fin %s %d)' % (lean_int(n), d)
    raise ExtractError('%s is not a number: %r' % (what, v))


def json_to_lean(v):
    if v is None:
        return '.null'
    if isinstance(v, bool):
        return '(.bool %s)' % ('true' if v else 'false')
    if isinstance(v, int):
        return '(.int %s)' % lean_int(v)
    if isinstance(v, float):
        if v != v:
            return '.nan'
        if v in (float('inf'), float('-inf')):
            return '.inf' if v > 0 else '.ninf'
        n, d = v.as_integer_ratio()
        return '(.flt %s %d)' % (lean_int(n), d)
    if isinstance(v, str):
        return '(.str %s)' % lean_str(v)
    if isinstance(v, (list, tuple)):
        return '(.arr %s)' % lean_list(json_to_lean(x) for x in v)
    if isinstance(v, dict):
        return '(.obj %s)' % lean_list('(%s, %s)' % (lean_str(k), json_to_lean(x)) for k, x in v.items())
    raise ExtractError('not a JSON value: %r' % (v,))


# --------------------------------------------------------------------------- schema -> Lean

TYPES = {'null': '.null', 'boolean': '.boolean', 'integer': '.integer', 'number': '.number',
         'string': '.string', 'array': '.array', 'object': '.object'}
KEYWORDS = {'type', 'properties', 'required', 'additionalProperties', 'patternProperties',
            'minimum', 'maximum', 'minLength', 'maxLength', 'minItems', 'maxItems',
            'minProperties', 'maxProperties', 'uniqueItems', 'enum', 'anyOf', 'oneOf', 'allOf', 'not',
            'pattern', 'format', 'items'}
FORMATS = {'uuid': '.uuid'}
NAT_KW = ('minLength', 'maxLength', 'minItems', 'maxItems', 'minProperties', 'maxProperties')


def looks_like_schema(d):
    return isinstance(d, dict) and all(isinstance(k, str) and k in KEYWORDS for k in d) and (
        'type' in d or 'anyOf' in d or 'oneOf' in d or 'allOf' in d or 'properties' in d or
        'patternProperties' in d or 'items' in d or not d)


def schema_to_lean(s, path, ind=2):
    """One `Schema.mk` application; sub-schemas are indented."""
    if s is True:
        return 'Schema.mk [] [] [] [] .allow none [] [] [] none'
    if not isinstance(s, dict):
        raise ExtractError('%s: schema is not a dict: %r' % (path, s))
    unknown = sorted(k for k in s if k not in KEYWORDS)
    if unknown:
        raise ExtractError('%s: unsupported schema keyword(s) %s' % (path, unknown))
    pad = ' ' * ind
    # type
    t = s.get('type', [])
    if isinstance(t, str):
        t = [t]
    if not isinstance(t, list) or any(x not in TYPES for x in t) or ('type' in s and not t):
        raise ExtractError('%s: unsupported type %r' % (path, s.get('type')))
    types = lean_list(TYPES[x] for x in t)
    # checks, in a fixed order
    checks = []
    if 'minimum' in s:
        checks.append('.minimum %s' % num_to_lean(s['minimum'], path + '.minimum'))
    if 'maximum' in s:
        checks.append('.maximum %s' % num_to_lean(s['maximum'], path + '.maximum'))
    for kw in NAT_KW:
        if kw in s:
            v = s[kw]
            if isinstance(v, bool) or not isinstance(v, int) or v < 0:
                raise ExtractError('%s: %s must be a non-negative int, got %r' % (path, kw, v))
            checks.append('.%s %d' % (kw, v))
    if 'uniqueItems' in s:
        if s['uniqueItems'] is True:
            checks.append('.uniqueItems')
        elif s['uniqueItems'] is not False:
            raise ExtractError('%s: uniqueItems %r' % (path, s['uniqueItems']))
    if 'required' in s:
        r = s['required']
        if not isinstance(r, list) or any(not isinstance(x, str) for x in r):
            raise ExtractError('%s: required %r' % (path, r))
        checks.append('.required %s' % lean_list(lean_str(x) for x in r))
    if 'pattern' in s:
        checks.append('.pattern %s' % regex_to_lean(s['pattern']))
    if 'format' in s:
        if s['format'] not in FORMATS:
            raise ExtractError('%s: unsupported format %r' % (path, s['format']))
        checks.append('.format %s' % FORMATS[s['format']])
    if 'enum' in s:
        if not isinstance(s['enum'], list):
            raise ExtractError('%s: enum %r' % (path, s['enum']))
        checks.append('.enum %s' % lean_list(json_to_lean(x) for x in s['enum']))
    checks_s = lean_list(checks)

    def sub(x, p):
        return schema_to_lean(x, p, ind + 4)

    def sublist(items):
        items = list(items)
        if not items:
            return '[]'
        return '[\n' + ',\n'.join(pad + '  ' + it for it in items) + ']'

    props = s.get('properties', {})
    if not isinstance(props, dict):
        raise ExtractError('%s: properties %r' % (path, props))
    props_s = sublist('(%s, %s)' % (lean_str(k), sub(v, path + '.' + k)) for k, v in props.items())
    pats = s.get('patternProperties', {})
    if not isinstance(pats, dict):
        raise ExtractError('%s: patternProperties %r' % (path, pats))
    pats_s = sublist('(%s, %s)' % (regex_to_lean(k), sub(v, path + '~' + k)) for k, v in pats.items())
    ap = s.get('additionalProperties', True)
    if ap is True:
        addl = '.allow'
    elif ap is False:
        addl = '.deny'
    elif isinstance(ap, dict):
        addl = '(.schema (%s))' % sub(ap, path + '.additionalProperties')
    else:
        raise ExtractError('%s: additionalProperties %r' % (path, ap))
    if 'items' in s:
        if not isinstance(s['items'], dict):
            raise ExtractError('%s: items must be a schema (got %r)' % (path, s['items']))
        items = '(some (%s))' % sub(s['items'], path + '.items')
    else:
        items = 'none'
    comb = []
    for kw in ('anyOf', 'oneOf', 'allOf'):
        if kw in s:
            if not isinstance(s[kw], list) or not s[kw]:
                raise ExtractError('%s: %s must be a non-empty list' % (path, kw))
            comb.append(sublist(sub(x, '%s.%s[%d]' % (path, kw, i)) for i, x in enumerate(s[kw])))
        else:
            comb.append('[]')
    nt = '(some (%s))' % sub(s['not'], path + '.not') if 'not' in s else 'none'
    return 'Schema.mk %s %s %s %s %s %s %s %s %s %s' % (
        types, checks_s, props_s, pats_s, addl, items, comb[0], comb[1], comb[2], nt)


# --------------------------------------------------------------------------- walk placement.schemas

def schema_modules():
    import placement.schemas as pkg
    mods = []
    for m in sorted(pkgutil.iter_modules(pkg.__path__), key=lambda m: m.name):
        mods.append((m.name, importlib.import_module('placement.schemas.' + m.name)))
    return mods


def collect_schemas():
    """-> (ordered [(module, name, dict)], {id(dict): 'module.NAME'})"""
    out = []
    ids = {}
    for mname, mod in schema_modules():
        names = sorted(n for n, v in vars(mod).items() if isinstance(v, dict) and not n.startswith('__'))
        schemas = [(n, vars(mod)[n]) for n in names if looks_like_schema(vars(mod)[n])]
        inner = set()
        for _, d in schemas:
            stack = [d]
            while stack:
                x = stack.pop()
                if isinstance(x, dict):
                    inner.add(id(x))
                    stack.extend(x.values())
                elif isinstance(x, list):
                    stack.extend(x)
        for n in names:
            d = vars(mod)[n]
            if looks_like_schema(d):
                out.append((mname, n, d))
                ids.setdefault(id(d), '%s.%s' % (mname, n))
            elif id(d) not in inner:
                raise ExtractError('placement.schemas.%s.%s is a dict but neither a schema nor part of one' % (mname, n))
    return out, ids


# --------------------------------------------------------------------------- handlers: ast helpers

def placement_dir():
    import placement
    return os.path.dirname(placement.__file__)


def parse_file(path):
    with open(path) as f:
        src = f.read()
    return ast.parse(src, filename=path)


def dotted(node):
    if isinstance(node, ast.Name):
        return node.id
    if isinstance(node, ast.Attribute):
        b = dotted(node.value)
        return None if b is None else b + '.' + node.attr
    return None


def parse_version_tuple(node, mod):
    """(1, 23) literal, or a module constant holding such a tuple."""
    if isinstance(node, ast.Tuple) and len(node.elts) == 2 and all(
            isinstance(e, ast.Constant) and isinstance(e.value, int) for e in node.elts):
        return (node.elts[0].value, node.elts[1].value)
    d = dotted(node)
    if d is not None:
        try:
            v = eval(d, vars(mod))
        except Exception:
            return None
        if isinstance(v, tuple) and len(v) == 2 and all(isinstance(x, int) for x in v):
            return tuple(v)
    return None


class FuncInfo(object):
    def __init__(self, modname, mod, node, ordinal, count):
        self.modname, self.mod, self.node = modname, mod, node
        self.name = node.name
        self.key = '%s.%s' % (modname, node.name) + ('#%d' % ordinal if count > 1 else '')
        self.window = None


def handler_modules():
    import placement.handlers as pkg
    mods = []
    for m in sorted(pkgutil.iter_modules(pkg.__path__), key=lambda m: m.name):
        mod = importlib.import_module('placement.handlers.' + m.name)
        mods.append((m.name, mod, parse_file(os.path.join(placement_dir(), 'handlers', m.name + '.py'))))
    return mods


def version_window(fnode, all_versions):
    """window of a def from its `microversion.version_handler('a', 'b')` decorator"""
    lo, hi = all_versions[0], all_versions[-1]
    for dec in fnode.decorator_list:
        if isinstance(dec, ast.Call) and (dotted(dec.func) or '').endswith('version_handler'):
            args = [a for a in dec.args]
            kw = {k.arg: k.value for k in dec.keywords}
            a0 = args[0] if args else kw.get('min_ver')
            a1 = args[1] if len(args) > 1 else kw.get('max_ver')
            if not (isinstance(a0, ast.Constant) and isinstance(a0.value, str)):
                raise ExtractError('version_handler of %s: min version is not a literal' % fnode.name)
            lo = tuple(int(x) for x in a0.value.split('.'))
            if a1 is not None:
                if not (isinstance(a1, ast.Constant) and isinstance(a1.value, str)):
                    raise ExtractError('version_handler of %s: max version is not a literal' % fnode.name)
                hi = tuple(int(x) for x in a1.value.split('.'))
    return lo, hi


VALIDATION_CALLS = {'util.extract_json': 1, 'util.validate_query_params': 1, 'jsonschema.validate': 1}


class SchemaSites(object):
    """Evaluate, for one concrete microversion, which schema reaches each validation call of a handler."""

    def __init__(self, funcs_by_mod, schema_ids, schema_mod_names):
        self.funcs_by_mod = funcs_by_mod      # modname -> {name: [FuncInfo,...]}
        self.schema_ids = schema_ids
        self.schema_mod_names = schema_mod_names

    # -- expression that denotes a schema
    def resolve_schema(self, expr, fi, env, version):
        if isinstance(expr, ast.Name):
            if expr.id in env:
                return env[expr.id]
            raise ExtractError('%s: schema variable %r is not bound to a schema constant' % (fi.key, expr.id))
        d = dotted(expr)
        if d is not None:
            try:
                v = eval(d, vars(fi.mod))
            except Exception as e:
                raise ExtractError('%s: cannot resolve %s: %s' % (fi.key, d, e))
            n = self.schema_ids.get(id(v))
            if n is None:
                raise ExtractError('%s: %s is not a module-level schema constant' % (fi.key, d))
            return n
        if isinstance(expr, ast.Call) and isinstance(expr.func, ast.Name) and \
                expr.func.id in self.funcs_by_mod[fi.modname]:
            # helper that computes the schema from the version: evaluate it on the real Version object
            import microversion_parse
            from placement import microversion as mv
            fn = getattr(fi.mod, expr.func.id)
            ver = microversion_parse.Version(version[0], version[1])
            allv = [tuple(int(x) for x in s.split('.')) for s in mv.VERSIONS]
            ver.min_version = microversion_parse.Version(*allv[0])
            ver.max_version = microversion_parse.Version(*allv[-1])
            if len(expr.args) != 1 or expr.keywords:
                raise ExtractError('%s: schema helper %s has an unexpected signature' % (fi.key, expr.func.id))
            v = fn(ver)
            n = self.schema_ids.get(id(v))
            if n is None:
                raise ExtractError('%s: %s(%s) is not a module-level schema constant' % (fi.key, expr.func.id, version))
            return n
        raise ExtractError('%s: cannot tell which schema %s is' % (fi.key, ast.dump(expr)[:120]))

    def is_schema_expr(self, expr, fi, env):
        if isinstance(expr, ast.Name):
            return expr.id in env
        if isinstance(expr, ast.Call) and isinstance(expr.func, ast.Name) and \
                expr.func.id in self.funcs_by_mod[fi.modname] and len(expr.args) == 1 and not expr.keywords \
                and isinstance(expr.args[0], ast.Name) and 'version' in expr.args[0].id \
                and 'schema' in expr.func.id:
            return True
        d = dotted(expr)
        if d is not None:
            try:
                v = eval(d, vars(fi.mod))
            except Exception:
                return False
            return id(v) in self.schema_ids
        return False

    # -- version tests
    def eval_test(self, expr, fi, benv, version):
        """True / False / None (unknown)"""
        if isinstance(expr, ast.Name):
            return benv.get(expr.id)
        if isinstance(expr, ast.UnaryOp) and isinstance(expr.op, ast.Not):
            v = self.eval_test(expr.operand, fi, benv, version)
            return None if v is None else (not v)
        if isinstance(expr, ast.Call) and isinstance(expr.func, ast.Attribute) and expr.func.attr == 'matches':
            kw = {k.arg: k.value for k in expr.keywords}
            a = list(expr.args)
            mn = a[0] if a else kw.get('min_version')
            mx = a[1] if len(a) > 1 else kw.get('max_version')
            lo = parse_version_tuple(mn, fi.mod) if mn is not None else (0, 0)
            hi = parse_version_tuple(mx, fi.mod) if mx is not None else (10 ** 6, 0)
            if lo is None or hi is None:
                return None
            return lo <= version <= hi
        if isinstance(expr, ast.Compare) and len(expr.ops) == 1 and isinstance(expr.left, ast.Name) \
                and 'version' in expr.left.id:
            t = parse_version_tuple(expr.comparators[0], fi.mod)
            if t is None:
                return None
            op = expr.ops[0]
            for cls, f in ((ast.GtE, lambda a, b: a >= b), (ast.Gt, lambda a, b: a > b),
                           (ast.LtE, lambda a, b: a <= b), (ast.Lt, lambda a, b: a < b),
                           (ast.Eq, lambda a, b: a == b)):
                if isinstance(op, cls):
                    return f(version, t)
        return None

    # -- statements
    def run(self, fi, env, version, sites, depth=0):
        if depth > 4:
            raise ExtractError('%s: helper nesting too deep' % fi.key)
        self.block(fi.node.body, fi, dict(env), {}, version, sites, depth)

    def block(self, stmts, fi, env, benv, version, sites, depth):
        for st in stmts:
            if isinstance(st, (ast.FunctionDef, ast.ClassDef)):
                # nested helper: its body runs when called; visit for validation calls
                if isinstance(st, ast.FunctionDef):
                    self.block(st.body, fi, env, benv, version, sites, depth)
                continue
            if isinstance(st, ast.Assign) and len(st.targets) == 1 and isinstance(st.targets[0], ast.Name):
                tgt = st.targets[0].id
                if self.is_schema_expr(st.value, fi, env):
                    env[tgt] = self.resolve_schema(st.value, fi, env, version)
                    continue
                tv = self.eval_test(st.value, fi, benv, version) if isinstance(
                    st.value, (ast.Call, ast.Compare, ast.UnaryOp)) else None
                if tv is not None:
                    benv[tgt] = tv
                else:
                    benv.pop(tgt, None)
                    env.pop(tgt, None) if not self.is_schema_expr(st.value, fi, env) and tgt in env and \
                        not isinstance(st.value, ast.Name) else None
                self.exprs(st, fi, env, version, sites, depth)
                continue
            if isinstance(st, ast.If):
                tv = self.eval_test(st.test, fi, benv, version)
                assigns = self.assigns_schema(st, fi, env)
                if tv is None:
                    if assigns:
                        raise ExtractError('%s line %d: schema chosen under a condition the translator cannot '
                                           'evaluate' % (fi.key, st.lineno))
                    self.exprs(st.test, fi, env, version, sites, depth)
                    self.block(st.body, fi, env, benv, version, sites, depth)
                    self.block(st.orelse, fi, env, benv, version, sites, depth)
                elif tv:
                    self.block(st.body, fi, env, benv, version, sites, depth)
                else:
                    self.block(st.orelse, fi, env, benv, version, sites, depth)
                continue
            if isinstance(st, (ast.For, ast.While, ast.With, ast.Try)):
                for field in ('body', 'orelse', 'finalbody'):
                    self.block(getattr(st, field, []) or [], fi, env, benv, version, sites, depth)
                for h in getattr(st, 'handlers', []) or []:
                    self.block(h.body, fi, env, benv, version, sites, depth)
                for field in ('iter', 'test'):
                    if getattr(st, field, None) is not None:
                        self.exprs(getattr(st, field), fi, env, version, sites, depth)
                for it in getattr(st, 'items', []) or []:
                    self.exprs(it.context_expr, fi, env, version, sites, depth)
                continue
            self.exprs(st, fi, env, version, sites, depth)

    def assigns_schema(self, node, fi, env):
        for n in ast.walk(node):
            if isinstance(n, ast.Assign) and self.is_schema_expr(n.value, fi, env) and not isinstance(n.value, ast.Name):
                return True
        return False

    def exprs(self, node, fi, env, version, sites, depth):
        for n in ast.walk(node):
            if not isinstance(n, ast.Call):
                continue
            d = dotted(n.func)
            if d in VALIDATION_CALLS:
                idx = VALIDATION_CALLS[d]
                kw = {k.arg: k.value for k in n.keywords}
                sarg = n.args[idx] if len(n.args) > idx else kw.get('schema')
                if sarg is None:
                    raise ExtractError('%s line %d: %s without a schema argument' % (fi.key, n.lineno, d))
                name = self.resolve_schema(sarg, fi, env, version)
                first = dotted(n.args[0]) if n.args else None
                if d == 'util.validate_query_params':
                    kind = 'query'
                elif d == 'util.extract_json' and first == 'req.body' or first == 'body':
                    kind = 'body'
                else:
                    kind = 'path'
                sites.append((kind, name))
            elif isinstance(n.func, ast.Name) and n.func.id in self.funcs_by_mod[fi.modname]:
                # call of a helper in the same module: bind schema-valued arguments, descend
                cands = self.funcs_by_mod[fi.modname][n.func.id]
                callee = cands[-1]
                params = [a.arg for a in callee.node.args.args]
                cenv = {}
                for i, a in enumerate(n.args):
                    if i < len(params) and self.is_schema_expr(a, fi, env):
                        cenv[params[i]] = self.resolve_schema(a, fi, env, version)
                for k in n.keywords:
                    if k.arg in params and self.is_schema_expr(k.value, fi, env):
                        cenv[k.arg] = self.resolve_schema(k.value, fi, env, version)
                if callee is fi:
                    continue
                if cenv or self.has_validation(callee):
                    self.run(callee, cenv, version, sites, depth + 1)

    def has_validation(self, fi, seen=None):
        seen = seen or set()
        if fi.key in seen:
            return False
        seen.add(fi.key)
        for n in ast.walk(fi.node):
            if isinstance(n, ast.Call):
                if dotted(n.func) in VALIDATION_CALLS:
                    return True
                if isinstance(n.func, ast.Name) and n.func.id in self.funcs_by_mod[fi.modname]:
                    if self.has_validation(self.funcs_by_mod[fi.modname][n.func.id][-1], seen):
                        return True
        return False


def collect_functions():
    from placement import microversion as mv
    allv = [tuple(int(x) for x in s.split('.')) for s in mv.VERSIONS]
    funcs_by_mod = {}
    for mname, mod, tree in handler_modules():
        defs = [n for n in tree.body if isinstance(n, ast.FunctionDef)]
        counts = {}
        for d in defs:
            counts[d.name] = counts.get(d.name, 0) + 1
        seen = {}
        table = {}
        for d in defs:
            seen[d.name] = seen.get(d.name, 0) + 1
            fi = FuncInfo(mname, mod, d, seen[d.name], counts[d.name])
            fi.window = version_window(d, allv)
            table.setdefault(d.name, []).append(fi)
        funcs_by_mod[mname] = table
    return funcs_by_mod, allv


def route_handlers():
    """[(route, method, modname, funcname)]: the ROUTE_DECLARATIONS literal of placement/handler.py,
    cross-checked against the runtime object."""
    from placement import handler
    tree = parse_file(os.path.join(placement_dir(), 'handler.py'))
    lit = None
    for n in tree.body:
        if isinstance(n, ast.Assign) and len(n.targets) == 1 and dotted(n.targets[0]) == 'ROUTE_DECLARATIONS':
            lit = n.value
    if not isinstance(lit, ast.Dict):
        raise ExtractError('ROUTE_DECLARATIONS literal not found in placement/handler.py')
    out = []
    for k, v in zip(lit.keys, lit.values):
        if not (isinstance(k, ast.Constant) and isinstance(k.value, str) and isinstance(v, ast.Dict)):
            raise ExtractError('ROUTE_DECLARATIONS: entry not understood (line %d)' % k.lineno)
        for mk, mv in zip(v.keys, v.values):
            d = dotted(mv)
            if not (isinstance(mk, ast.Constant) and isinstance(mk.value, str) and d and d.count('.') == 1):
                raise ExtractError('ROUTE_DECLARATIONS[%r]: entry not understood' % k.value)
            out.append((k.value, mk.value, d.split('.')[0], d.split('.')[1]))
    out.sort()
    runtime = sorted((r, m) for r in handler.ROUTE_DECLARATIONS for m in handler.ROUTE_DECLARATIONS[r])
    if runtime != [(r, m) for (r, m, _, _) in out]:
        raise ExtractError('ROUTE_DECLARATIONS literal and runtime object differ')
    return out


def handler_schema_map(schema_ids):
    funcs_by_mod, allv = collect_functions()
    ss = SchemaSites(funcs_by_mod, schema_ids, None)
    rows = []
    seen_handlers = set()
    for route, method, mname, fname in route_handlers():
        if (mname, fname) in seen_handlers:
            continue
        seen_handlers.add((mname, fname))
        if fname not in funcs_by_mod.get(mname, {}):
            raise ExtractError('handler %s.%s of route %s %s not found in the source' % (mname, fname, method, route))
        per_version = {}
        for fi in funcs_by_mod[mname][fname]:
            for v in allv:
                if not (fi.window[0] <= v <= fi.window[1]):
                    continue
                if v in per_version:
                    raise ExtractError('%s.%s: overlapping version windows at %s' % (mname, fname, v))
                sites = []
                ss.run(fi, {}, v, sites)
                per_version[v] = tuple(sites)
        # merge contiguous versions with the same sites
        run_start, prev, cur = None, None, None
        for v in allv + [None]:
            s = per_version.get(v) if v is not None else None
            if v is not None and v in per_version and s == cur and prev is not None and allv.index(v) == allv.index(prev) + 1:
                prev = v
                continue
            if cur is not None and run_start is not None:
                for kind, name in cur:
                    rows.append(('%s.%s' % (mname, fname), kind, run_start, prev, name))
            if v is not None and v in per_version:
                run_start, prev, cur = v, v, s
            else:
                run_start, prev, cur = None, None, None
    return rows, funcs_by_mod, allv


# --------------------------------------------------------------------------- except clauses

def exc_name(node, mod):
    d = dotted(node)
    if d is None:
        raise ExtractError('except clause with a non-name class: %s' % ast.dump(node)[:80])
    try:
        cls = eval(d, dict(vars(mod), **{'__builtins__': __builtins__}))
    except Exception as e:
        raise ExtractError('cannot resolve exception class %s in %s: %s' % (d, mod.__name__, e))
    if not (isinstance(cls, type) and issubclass(cls, BaseException)):
        raise ExtractError('%s in %s is not an exception class' % (d, mod.__name__))
    if cls.__module__ == 'builtins':
        return cls.__name__
    return '%s.%s' % (cls.__module__, cls.__qualname__)


def clause_action(h, mod):
    """-> (kind, webob class or '', status or 0, error code or '')"""
    import webob.exc
    from placement import errors
    raises = [n for n in ast.walk(h) if isinstance(n, ast.Raise)]
    for r in raises:
        if r.exc is None:
            continue
        call = r.exc
        target = call.func if isinstance(call, ast.Call) else call
        d = dotted(target)
        if d is None:
            continue
        try:
            cls = eval(d, vars(mod))
        except Exception:
            continue
        if isinstance(cls, type) and issubclass(cls, webob.exc.HTTPException):
            code = errors.DEFAULT
            if isinstance(call, ast.Call):
                for k in call.keywords:
                    if k.arg == 'comment':
                        cd = dotted(k.value)
                        try:
                            code = eval(cd, vars(mod))
                        except Exception as e:
                            raise ExtractError('cannot resolve error code %s: %s' % (cd, e))
                        if not isinstance(code, str):
                            raise ExtractError('error code %s is not a string' % cd)
            return ('http', cls.__name__, int(cls.code), code)
    for n in ast.walk(h):
        if isinstance(n, ast.Raise) and n.exc is None:
            return ('reraise', '', 0, '')
        if isinstance(n, ast.Call) and (dotted(n.func) or '').endswith('save_and_reraise_exception'):
            return ('reraise', '', 0, '')
    if raises:
        r = raises[0]
        d = dotted(r.exc.func if isinstance(r.exc, ast.Call) else r.exc)
        return ('raise', d or '?', 0, '')
    return ('handled', '', 0, '')


def function_clauses(fnode, mod):
    """ordered [(try ordinal, [classes], kind, webob, status, code)] of one def (nested defs included)"""
    out = []
    tries = [n for n in ast.walk(fnode) if isinstance(n, ast.Try)]
    tries.sort(key=lambda n: (n.lineno, n.col_offset))
    for ti, t in enumerate(tries):
        for h in t.handlers:
            if h.type is None:
                classes = ['BaseException']
            elif isinstance(h.type, ast.Tuple):
                classes = [exc_name(e, mod) for e in h.type.elts]
            else:
                classes = [exc_name(h.type, mod)]
            kind, wcls, status, code = clause_action(h, mod)
            out.append((ti, classes, kind, wcls, status, code))
    return out


def callees(fnode, modname, funcs_by_mod, util_funcs):
    """names of functions of the handler modules / placement.util that a def calls (source order)"""
    out = []
    for n in sorted((n for n in ast.walk(fnode) if isinstance(n, ast.Call)), key=lambda n: (n.lineno, n.col_offset)):
        d = dotted(n.func)
        if d is None:
            continue
        if '.' not in d and d in funcs_by_mod.get(modname, {}):
            out.append((modname, d))
        elif d.startswith('data_util.') and d.split('.', 1)[1] in funcs_by_mod.get('util', {}):
            out.append(('util', d.split('.', 1)[1]))
        elif d.startswith('util.') and d.split('.', 1)[1] in util_funcs and modname != 'util':
            out.append(('placement.util', d.split('.', 1)[1]))
    for dec in getattr(fnode, 'decorator_list', []):
        call = dec.func if isinstance(dec, ast.Call) else dec
        d = dotted(call)
        if d and d.startswith('util.') and d.split('.', 1)[1] in util_funcs:
            out.append(('placement.util', d.split('.', 1)[1]))
    seen, uniq = set(), []
    for c in out:
        if c not in seen:
            seen.add(c)
            uniq.append(c)
    return uniq


def error_tables(funcs_by_mod):
    import placement.util as putil
    import placement.handler as phandler
    pdir = placement_dir()
    util_tree = parse_file(os.path.join(pdir, 'util.py'))
    util_funcs = {n.name: n for n in util_tree.body if isinstance(n, ast.FunctionDef)}
    handler_tree = parse_file(os.path.join(pdir, 'handler.py'))
    func_rows = {}     # key -> clauses
    calls = {}         # key -> [keys]
    for mname in sorted(funcs_by_mod):
        for fname in sorted(funcs_by_mod[mname]):
            for fi in funcs_by_mod[mname][fname]:
                func_rows[fi.key] = function_clauses(fi.node, fi.mod)
                cs = []
                for (cm, cn) in callees(fi.node, mname, funcs_by_mod, util_funcs):
                    if cm == 'placement.util':
                        cs.append('placement.util.%s' % cn)
                    else:
                        cs.extend(c.key for c in funcs_by_mod[cm][cn] if c is not fi)
                calls[fi.key] = cs
    for name in sorted(util_funcs):
        func_rows['placement.util.%s' % name] = function_clauses(util_funcs[name], putil)
        calls['placement.util.%s' % name] = []
    disp = None
    for n in ast.walk(handler_tree):
        if isinstance(n, ast.ClassDef) and n.name == 'PlacementHandler':
            for m in n.body:
                if isinstance(m, ast.FunctionDef) and m.name == '__call__':
                    disp = function_clauses(m, phandler)
    if disp is None:
        raise ExtractError('PlacementHandler.__call__ not found')
    func_rows['placement.handler.PlacementHandler.__call__'] = disp
    calls['placement.handler.PlacementHandler.__call__'] = []

    def closure(key):
        order, seen = [], set()

        def go(k):
            if k in seen:
                return
            seen.add(k)
            order.append(k)
            for c in calls.get(k, []):
                go(c)
        go(key)
        return order

    return func_rows, calls, closure


def exception_hierarchy():
    from placement import exception
    rows = []
    for n in sorted(vars(exception)):
        c = vars(exception)[n]
        if isinstance(c, type) and issubclass(c, BaseException) and c.__module__ == exception.__name__:
            anc = ['%s.%s' % (b.__module__, b.__qualname__) if b.__module__ != 'builtins' else b.__name__
                   for b in c.__mro__[1:] if b is not object]
            rows.append(('%s.%s' % (c.__module__, c.__qualname__), anc))
    return rows


# --------------------------------------------------------------------------- json_error_formatter

def formatter_structure():
    """Keys of the error dict built by util.json_error_formatter with the guard of each key."""
    import placement.util as putil
    tree = parse_file(os.path.join(placement_dir(), 'util.py'))
    fn = None
    for n in tree.body:
        if isinstance(n, ast.FunctionDef) and n.name == 'json_error_formatter':
            fn = n
    if fn is None:
        raise ExtractError('util.json_error_formatter not found')
    dict_name = None
    rows = []

    def guard(expr):
        # conjunctions of recognised atoms
        if isinstance(expr, ast.BoolOp) and isinstance(expr.op, ast.And):
            parts = [guard(v) for v in expr.values]
            out = parts[-1]
            for p in reversed(parts[:-1]):
                out = '(.and %s %s)' % (p, out)
            return out
        if isinstance(expr, ast.Name) and expr.id == 'want_version':
            return '.hasVersion'
        if isinstance(expr, ast.Call) and isinstance(expr.func, ast.Attribute) and expr.func.attr == 'matches' \
                and dotted(expr.func.value) == 'want_version':
            a = list(expr.args)
            kw = {k.arg: k.value for k in expr.keywords}
            mn = a[0] if a else kw.get('min_version')
            if mn is None or len(a) > 1 or 'max_version' in kw:
                raise ExtractError('json_error_formatter: unexpected matches() call')
            t = parse_version_tuple(mn, putil)
            if t is None:
                raise ExtractError('json_error_formatter: cannot evaluate version in matches()')
            return '(.versionAtLeast %d %d)' % t
        if isinstance(expr, ast.Compare) and len(expr.ops) == 1:
            left, op, right = expr.left, expr.ops[0], expr.comparators[0]
            if isinstance(op, ast.Eq) and dotted(left) == 'status_code' and isinstance(right, ast.Constant):
                return '(.statusEq %d)' % right.value
            if isinstance(op, (ast.In, ast.NotIn)) and dotted(right) == 'environ':
                d = dotted(left)
                if d == 'request_id.ENV_REQUEST_ID':
                    atom = '.hasRequestId'
                elif d == 'microversion.MICROVERSION_ENVIRON':
                    atom = '.hasVersion'
                else:
                    raise ExtractError('json_error_formatter: unknown environ key %s' % d)
                return atom if isinstance(op, ast.In) else '(.not %s)' % atom
        raise ExtractError('json_error_formatter: guard not understood: %s' % ast.dump(expr)[:160])

    for st in fn.body:
        if isinstance(st, ast.Assign) and isinstance(st.value, ast.Dict) and dict_name is None and \
                isinstance(st.targets[0], ast.Name) and 'error' in st.targets[0].id:
            dict_name = st.targets[0].id
            for k in st.value.keys:
                if not (isinstance(k, ast.Constant) and isinstance(k.value, str)):
                    raise ExtractError('json_error_formatter: non-literal key')
                rows.append((k.value, '.always'))
        elif isinstance(st, ast.If) and dict_name is not None:
            g = guard(st.test)
            if st.orelse:
                raise ExtractError('json_error_formatter: else branch not understood')
            for b in st.body:
                ok = (isinstance(b, ast.Assign) and isinstance(b.targets[0], ast.Subscript) and
                      dotted(b.targets[0].value) == dict_name and isinstance(b.targets[0].slice, ast.Constant))
                if not ok:
                    raise ExtractError('json_error_formatter: statement under a guard not understood (line %d)' % b.lineno)
                rows.append((b.targets[0].slice.value, g))
        elif isinstance(st, ast.Return):
            v = st.value
            ok = (isinstance(v, ast.Dict) and len(v.keys) == 1 and isinstance(v.keys[0], ast.Constant) and
                  v.keys[0].value == 'errors' and isinstance(v.values[0], ast.List) and
                  len(v.values[0].elts) == 1 and dotted(v.values[0].elts[0]) == dict_name)
            if not ok:
                raise ExtractError('json_error_formatter: return value is not {"errors": [error_dict]}')
        elif isinstance(st, ast.Assign) and dict_name is not None:
            # a later plain assignment into the dict or to want_version etc.
            t = st.targets[0]
            if isinstance(t, ast.Subscript) and dotted(t.value) == dict_name:
                if not isinstance(t.slice, ast.Constant):
                    raise ExtractError('json_error_formatter: non-literal key')
                rows.append((t.slice.value, '.always'))
    if dict_name is None or not rows:
        raise ExtractError('json_error_formatter: error dict not found')
    return rows, putil.ERROR_CODE_MICROVERSION


# --------------------------------------------------------------------------- emit

HEADER = """/-
  GENERATED by harness/extractors/schemas.py from the working tree of placement -- do not edit.
  %s
-/
"""


def ver(t):
    return '(%d, %d)' % t


def mangle(name):
    out = re.sub(r'[^A-Za-z0-9_]', '_', name)
    if not re.match(r'^[A-Za-z_]', out):
        out = '_' + out
    return out


def enum_names(full_names, short=lambda n: n):
    """full name -> Lean constructor name; short names where unambiguous, mangled full names otherwise"""
    byshort = {}
    for n in full_names:
        byshort.setdefault(mangle(short(n)), []).append(n)
    out = {}
    used = set()
    for n in sorted(full_names):
        c = mangle(short(n))
        if len(byshort[c]) > 1:
            c = mangle(n)
        if c in used:
            raise ExtractError('constructor name clash for %s' % n)
        used.add(c)
        out[n] = c
    return out


def emit_enum(lines, typ, names, doc):
    """`names`: full name -> constructor"""
    lines.append('/-- %s -/' % doc)
    lines.append('inductive %s where' % typ)
    for n in sorted(names):
        lines.append('  | %s' % names[n])
    lines.append('deriving Repr, DecidableEq, Inhabited')
    lines.append('')
    lines.append('def %s.name : %s → String' % (typ, typ))
    for n in sorted(names):
        lines.append('  | .%s => %s' % (names[n], lean_str(n)))
    lines.append('')
    lines.append('def %s.all : List %s := %s' % (typ, typ, lean_list('.' + names[n] for n in sorted(names))))
    lines.append('')


def gen_all():
    from placement import errors
    schemas, ids = collect_schemas()
    rows, funcs_by_mod, allv = handler_schema_map(ids)
    func_rows, calls, closure = error_tables(funcs_by_mod)
    rh = route_handlers()

    # ------------------------------------------------------------------ Errors.lean
    exc_full = set()
    for k in func_rows:
        for c in func_rows[k]:
            exc_full.update(c[1])
    hier = exception_hierarchy()
    for c, anc in hier:
        exc_full.add(c)
        exc_full.update(anc)
    exc = enum_names(exc_full, short=lambda n: n.split('.')[-1])
    fn = enum_names(set(func_rows), short=lambda n: n)
    handlers = sorted(set('%s.%s' % (mn, f) for (_, _, mn, f) in rh))
    hd = enum_names(set(handlers), short=lambda n: n)

    E = [HEADER % 'except-maps of the handlers, exception hierarchy, error codes, structure of json_error_formatter.',
         '', 'namespace Placement.Gen.Errors', '']
    emit_enum(E, 'Exc', exc, 'every exception class named in an `except` clause of placement/handlers/*.py, '
                             'placement/util.py, placement/handler.py, and every class of placement.exception with its ancestors')
    emit_enum(E, 'Fn', fn, 'every function definition of those files (`#n` = n-th definition of that name in its module)')
    emit_enum(E, 'Handler', hd, 'the functions ROUTE_DECLARATIONS dispatches to')
    E += ['/-- what an `except` clause does -/',
          'inductive Action where',
          '  | http (webobClass : String) (status : Nat) (code : String)',
          '  | reraise',
          '  | raise (what : String)',
          '  | handled',
          'deriving Repr, DecidableEq', '',
          'structure Clause where',
          '  tryOrdinal : Nat',
          '  classes : List Exc',
          '  action : Action',
          'deriving Repr, DecidableEq', '']

    def clause(c):
        ti, classes, kind, wcls, status, code = c
        if kind == 'http':
            act = '(.http %s %d %s)' % (lean_str(wcls), status, lean_str(code))
        elif kind == 'raise':
            act = '(.raise %s)' % lean_str(wcls)
        else:
            act = '.' + kind
        return '⟨%d, %s, %s⟩' % (ti, lean_list('.' + exc[x] for x in classes), act)

    E.append('/-- per function: its `except` clauses in source order -/')
    E.append('def funcClauses : List (Fn × List Clause) := [')
    E.append(',\n'.join('  (.%s, %s)' % (fn[k], lean_list(clause(c) for c in func_rows[k])) for k in sorted(func_rows)))
    E.append(']')
    E.append('')
    E.append('/-- per function: the functions of placement.handlers / placement.util it calls (source order) -/')
    E.append('def funcCalls : List (Fn × List Fn) := [')
    E.append(',\n'.join('  (.%s, %s)' % (fn[k], lean_list('.' + fn[c] for c in calls[k])) for k in sorted(calls)))
    E.append(']')
    E.append('')
    E.append('/-- functions of placement/util.py (their clauses guard their own `try` bodies) -/')
    E.append('def utilFns : List Fn := %s' % lean_list('.' + fn[k] for k in sorted(func_rows) if k.startswith('placement.util.')))
    E.append('')
    E.append('/-- (route, method, handler) -/')
    E.append('def routes : List (String × String × Handler) := [')
    E.append(',\n'.join('  (%s, %s, .%s)' % (lean_str(r), lean_str(m), hd['%s.%s' % (mn, f)]) for (r, m, mn, f) in rh))
    E.append(']')
    E.append('')
    E.append('/-- per definition of a route handler (one per version window: handler, definition, first and last\n'
             'version): every clause reachable through calls inside placement.handlers / placement.util, callers first -/')
    E.append('def handlerClauses : List (Handler × Fn × (Nat × Nat) × (Nat × Nat) × List (Fn × Clause)) := [')
    hrows = []
    for h in handlers:
        mn, f = h.split('.')
        for fi in funcs_by_mod[mn][f]:
            cl = []
            for k in closure(fi.key):
                for c in func_rows.get(k, []):
                    cl.append('(.%s, %s)' % (fn[k], clause(c)))
            hrows.append('  (.%s, .%s, %s, %s, %s)' % (hd[h], fn[fi.key], ver(fi.window[0]), ver(fi.window[1]),
                                                   '[' + (',\n     '.join(cl)) + ']'))
    E.append(',\n'.join(hrows))
    E.append(']')
    E.append('')
    E.append('/-- the clauses of PlacementHandler.__call__ that surround every handler -/')
    E.append('def dispatchClauses : List Clause := %s' %
             lean_list(clause(c) for c in func_rows['placement.handler.PlacementHandler.__call__']))
    E.append('')
    E.append('/-- class of `placement.exception` with all its ancestors (MRO order) -/')
    E.append('def exceptionAncestors : List (Exc × List Exc) := [')
    E.append(',\n'.join('  (.%s, %s)' % (exc[c], lean_list('.' + exc[a] for a in anc)) for c, anc in hier))
    E.append(']')
    E.append('')
    E.append('/-- `placement.errors` -/')
    E.append('def errorCodes : List (String × String) := [')
    E.append(',\n'.join('  (%s, %s)' % (lean_str(n), lean_str(v)) for n, v in sorted(vars(errors).items())
                        if n.isupper() and isinstance(v, str)))
    E.append(']')
    E.append('')
    frows, ecm = formatter_structure()
    E += ['/-- guards inside `util.json_error_formatter` -/',
          'inductive Guard where',
          '  | always',
          '  | hasVersion',
          '  | hasRequestId',
          '  | versionAtLeast (major minor : Nat)',
          '  | statusEq (n : Nat)',
          '  | and (a b : Guard)',
          '  | not (a : Guard)',
          'deriving Repr, DecidableEq', '',
          '/-- key of the error object and the condition under which `json_error_formatter` sets it (source order) -/',
          'def errorBodyKeys : List (String × Guard) := %s' %
          lean_list('(%s, %s)' % (lean_str(k), g) for k, g in frows), '',
          'def ERROR_CODE_MICROVERSION : Nat × Nat := %s' % ver(tuple(ecm)), '',
          'end Placement.Gen.Errors']

    # ------------------------------------------------------------------ Schemas.lean
    L = [HEADER % 'JSON schemas of placement.schemas.* (runtime objects), regexes of placement.schemas.common, '
                  'handler -> schema map.',
         'import Placement.Model.Schema', 'import Placement.Gen.Errors', '',
         'namespace Placement.Gen.Schemas', '', 'open Placement Placement.Regex', '']
    bymod = {}
    for m, n, d in schemas:
        bymod.setdefault(m, []).append((n, d))
    import placement.schemas.common as common
    L.append('namespace common')
    for n in sorted(vars(common)):
        v = vars(common)[n]
        if n.startswith('__') or not isinstance(v, str):
            continue
        L.append('/-- %s = %s -/' % (n, lean_str(v).replace('-/', '- /')))
        L.append('def %s : Re := %s' % (lean_ident(n), regex_to_lean(v)))
    L.append('end common')
    L.append('')
    allnames = []
    for m in sorted(bymod):
        if m == 'common':
            raise ExtractError('schema dict in placement.schemas.common')
        L.append('namespace %s' % lean_ident(m))
        for n, d in bymod[m]:
            L.append('def %s : Schema :=\n  %s' % (lean_ident(n), schema_to_lean(d, '%s.%s' % (m, n))))
            L.append('')
            allnames.append('%s.%s' % (m, n))
        L.append('end %s' % m)
        L.append('')
    L.append('/-- every schema by its Python name (`module.CONSTANT`) -/')
    L.append('def all : List (String × Schema) := [')
    L.append(',\n'.join('  (%s, %s)' % (lean_str(n), n) for n in allnames))
    L.append(']')
    L.append('')
    L += ['/-- what a handler validates with a schema -/',
          'inductive Kind where',
          '  | body   -- `util.extract_json(req.body, S)`',
          '  | query  -- `util.validate_query_params(req, S)`',
          '  | path   -- a path segment (`jsonschema.validate(name, S)`, or JSON built from it)',
          'deriving Repr, DecidableEq', '',
          'structure HandlerSchema where',
          '  handler : Errors.Handler',
          '  kind : Kind',
          '  lo : Nat × Nat',
          '  hi : Nat × Nat',
          '  name : String',
          '  schema : Schema', '',
          '/-- the schema constant a handler validates with, per microversion window (both ends inclusive) -/',
          'def handlerSchemas : List HandlerSchema := [']
    L.append(',\n'.join('  ⟨.%s, .%s, %s, %s, %s, %s⟩' % (hd[h], k, ver(lo), ver(hi), lean_str(sn), sn)
                        for (h, k, lo, hi, sn) in sorted(rows)))
    L.append(']')
    L.append('')
    L.append('/-- `microversion.VERSIONS` -/')
    L.append('def versions : List (Nat × Nat) := %s' % lean_list(ver(v) for v in allv))
    L.append('')
    L.append('end Placement.Gen.Schemas')
    return {'Schemas.lean': '\n'.join(L) + '\n', 'Errors.lean': '\n'.join(E) + '\n'}


def generate():
    return gen_all()


if __name__ == '__main__':
    import sys
    out = generate()
    for k in sorted(out):
        sys.stdout.write('---- %s (%d bytes)\n' % (k, len(out[k])))
        if len(sys.argv) > 1:
            sys.stdout.write(out[k])
