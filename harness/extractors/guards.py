"""Translator for guard expressions: Python expression ASTs of the capacity / unit / generation tests
are turned into Lean `Bool` functions over the model's row types (`lean/Placement/Gen/Guards.lean`).

Sites are located semantically (function + the exception raised / value returned in the guarded block),
local names are resolved by single-assignment data flow, and emission is type-directed: the product
`(total - reserved) * allocation_ratio` compared with an integer becomes `CapOps.capLt`, `int(...)` of it
becomes `CapOps.capTrunc`.  Fails closed: any construct it does not understand raises ExtractError."""
import ast
import copy
import inspect
import os
import textwrap

import placement


class ExtractError(Exception):
    pass


def src_of(relpath):
    root = os.path.dirname(placement.__file__)
    with open(os.path.join(root, relpath)) as f:
        return f.read()


def find_func(tree, qual):
    parts = qual.split('.')
    node = tree
    for p in parts:
        found = None
        for n in ast.iter_child_nodes(node) if not isinstance(node, ast.Module) else node.body:
            if isinstance(n, (ast.FunctionDef, ast.ClassDef)) and n.name == p:
                found = n
        if found is None:
            # search nested (e.g. decorated functions inside functions)
            for n in ast.walk(node):
                if isinstance(n, (ast.FunctionDef, ast.ClassDef)) and n.name == p:
                    found = n
                    break
        if found is None:
            raise ExtractError('function %s not found' % qual)
        node = found
    return node


class Env(object):
    """single-assignment resolution of local names inside one function"""

    def __init__(self, fn):
        self.defs = {}
        for n in ast.walk(fn):
            if isinstance(n, ast.Assign) and len(n.targets) == 1 and isinstance(n.targets[0], ast.Name):
                self.defs.setdefault(n.targets[0].id, []).append(n.value)

    def resolve(self, name):
        vs = self.defs.get(name, [])
        return vs[0] if len(vs) == 1 else None


def _pure(e):
    """an expression that reads configuration / attributes only: names, attribute chains, constants"""
    if isinstance(e, (ast.Name, ast.Constant)):
        return True
    if isinstance(e, ast.Attribute):
        return _pure(e.value)
    return False


def inline_pure_locals(fn):
    """a copy of the function in which every local that is assigned exactly once, at the top level of the body, to a
    pure expression (`randomize = self._ctx.config.placement.randomize_allocation_candidates`) is replaced by that
    expression wherever it is read, and the assignment removed - so that naming a sub-expression does not change what
    the translator sees"""
    fn = copy.deepcopy(fn)
    env = Env(fn)
    top = {st.targets[0].id: st for st in fn.body
           if isinstance(st, ast.Assign) and len(st.targets) == 1 and isinstance(st.targets[0], ast.Name)}
    subst = {n: st.value for n, st in top.items() if env.resolve(n) is not None and _pure(st.value)}
    # a parameter or a name that is also written elsewhere (for-target, augmented assignment) is left alone
    for n in ast.walk(fn):
        if isinstance(n, (ast.For, ast.AugAssign, ast.With, ast.comprehension)):
            for t in ast.walk(getattr(n, 'target', n)):
                if isinstance(t, ast.Name) and isinstance(t.ctx, ast.Store):
                    subst.pop(t.id, None)

    class Sub(ast.NodeTransformer):
        def visit_Name(self, node):
            if isinstance(node.ctx, ast.Load) and node.id in subst:
                return copy.deepcopy(subst[node.id])
            return node
    fn.body = [st for st in fn.body if not (isinstance(st, ast.Assign) and len(st.targets) == 1 and
                                            isinstance(st.targets[0], ast.Name) and st.targets[0].id in subst)]
    Sub().visit(fn)
    return fn


CMP = {ast.Lt: '<', ast.LtE: '≤', ast.Gt: '>', ast.GtE: '≥', ast.Eq: '==', ast.NotEq: '!='}
BIN = {ast.Add: '+', ast.Sub: '-', ast.Mod: '%'}
FLIP = {ast.Lt: ast.Gt, ast.Gt: ast.Lt, ast.LtE: ast.GtE, ast.GtE: ast.LtE}


class Tr(object):
    """atoms: python source text -> (lean text, sort) with sort in {'int', 'ratio'}"""

    def __init__(self, env, atoms, what):
        self.env, self.atoms, self.what = env, atoms, what

    def fail(self, e):
        raise ExtractError('%s: cannot translate `%s`' % (self.what, ast.unparse(e)))

    def cap_parts(self, e, depth=0):
        """if e denotes (avail) * ratio return (lean avail, lean ratio) else None"""
        if isinstance(e, ast.Name) and ast.unparse(e) not in self.atoms and depth < 6:
            v = self.env.resolve(e.id) if self.env else None
            if v is not None:
                return self.cap_parts(v, depth + 1)
        if isinstance(e, ast.BinOp) and isinstance(e.op, ast.Mult):
            l, r = e.left, e.right
            for a, b in ((l, r), (r, l)):
                sb = self.sort(b)
                if sb == 'ratio':
                    return self.int(a), self.atom(b)[0]
        return None

    def atom(self, e):
        s = ast.unparse(e)
        if s in self.atoms:
            return self.atoms[s]
        return None

    def sort(self, e, depth=0):
        a = self.atom(e)
        if a:
            return a[1]
        if isinstance(e, ast.Name) and depth < 6 and self.env:
            v = self.env.resolve(e.id)
            if v is not None:
                return self.sort(v, depth + 1)
        return 'int'

    def int(self, e, depth=0):
        a = self.atom(e)
        if a:
            if a[1] != 'int':
                self.fail(e)
            return a[0]
        if isinstance(e, ast.Constant) and isinstance(e.value, int) and not isinstance(e.value, bool):
            return str(e.value)
        if isinstance(e, ast.BinOp) and type(e.op) in BIN:
            return '(%s %s %s)' % (self.int(e.left), BIN[type(e.op)], self.int(e.right))
        if isinstance(e, ast.Name) and depth < 6 and self.env:
            v = self.env.resolve(e.id)
            if v is not None:
                return self.int(v, depth + 1)
        if isinstance(e, ast.BoolOp) and isinstance(e.op, ast.Or) and len(e.values) == 2 and \
                isinstance(e.values[1], ast.Constant) and e.values[1].value == 0:
            return self.int(e.values[0])      # `x or 0`: NULL sum counted as 0 (the model's usage is 0 then)
        if isinstance(e, ast.Call) and ast.unparse(e.func).endswith('coalesce') and len(e.args) == 2 and \
                isinstance(e.args[1], ast.Constant) and e.args[1].value == 0:
            return self.int(e.args[0])
        if isinstance(e, ast.Call) and isinstance(e.func, ast.Name) and e.func.id == 'int' and len(e.args) == 1:
            cp = self.cap_parts(e.args[0])
            if cp:
                return '(CapOps.capTrunc %s %s)' % cp
        self.fail(e)

    def bool(self, e):
        if isinstance(e, ast.BoolOp):
            op = ' || ' if isinstance(e.op, ast.Or) else ' && '
            return '(' + op.join(self.bool(v) for v in e.values) + ')'
        if isinstance(e, ast.UnaryOp) and isinstance(e.op, ast.Not):
            return '(!%s)' % self.bool(e.operand)
        if isinstance(e, ast.Call) and ast.unparse(e.func).endswith('and_'):
            return '(' + ' && '.join(self.bool(v) for v in e.args) + ')'
        if isinstance(e, ast.Compare) and len(e.ops) == 1:
            op, l, r = type(e.ops[0]), e.left, e.comparators[0]
            cl, cr = self.cap_parts(l), self.cap_parts(r)
            if cl and not cr:
                n = self.int(r)
                if op is ast.Lt:      # cap < n
                    return '(CapOps.capLt %s %s %s)' % (cl[0], cl[1], n)
                if op is ast.GtE:     # cap >= n
                    return '(!CapOps.capLt %s %s %s)' % (cl[0], cl[1], n)
                self.fail(e)
            if cr and not cl:
                n = self.int(l)
                if op is ast.Gt:      # n > cap
                    return '(CapOps.capLt %s %s %s)' % (cr[0], cr[1], n)
                if op is ast.LtE:     # n <= cap
                    return '(!CapOps.capLt %s %s %s)' % (cr[0], cr[1], n)
                self.fail(e)
            if op in CMP:
                return '(decide (%s %s %s))' % (self.int(l), {'==': '=', '!=': '≠'}.get(CMP[op], CMP[op]), self.int(r))
        self.fail(e)


def guard_raising(fn, exc_name, what):
    hits = []
    for n in ast.walk(fn):
        if isinstance(n, ast.If):
            for b in n.body:
                for x in ast.walk(b):
                    if isinstance(x, ast.Raise) and x.exc is not None and exc_name in ast.unparse(x.exc):
                        hits.append(n.test)
                        break
    if len(hits) != 1:
        raise ExtractError('%s: expected exactly one `if` raising %s, found %d' % (what, exc_name, len(hits)))
    return hits[0]


# ----------------------------------------------------------------------------- small decision functions
def _bexpr(e, atoms, what):
    """boolean Python expression -> Lean Bool text; `atoms` maps the source text of sub-expressions to Lean text,
    string comparisons of a known attribute are given as atoms keyed by (attribute text, constant)"""
    s = ast.unparse(e)
    if ('truth', s) in atoms:          # a value used for its truthiness (`if self._limit and ...`)
        return atoms[('truth', s)]
    if s in atoms:
        return atoms[s]
    if isinstance(e, ast.Constant) and isinstance(e.value, bool):
        return 'true' if e.value else 'false'
    if isinstance(e, ast.UnaryOp) and isinstance(e.op, ast.Not):
        return '(!%s)' % _bexpr(e.operand, atoms, what)
    if isinstance(e, ast.BoolOp):
        op = ' && ' if isinstance(e.op, ast.And) else ' || '
        return '(' + op.join(_bexpr(v, atoms, what) for v in e.values) + ')'
    if isinstance(e, ast.Compare) and len(e.ops) == 1:
        l, r, op = e.left, e.comparators[0], e.ops[0]
        if isinstance(r, ast.Constant) and isinstance(r.value, str) and (ast.unparse(l), r.value) in atoms:
            base = atoms[(ast.unparse(l), r.value)]
            if isinstance(op, ast.Eq):
                return base
            if isinstance(op, ast.NotEq):
                return '(!%s)' % base
        if isinstance(op, (ast.In, ast.NotIn)) and (ast.unparse(l), 'in', ast.unparse(r)) in atoms:
            base = atoms[(ast.unparse(l), 'in', ast.unparse(r))]
            return base if isinstance(op, ast.In) else '(!%s)' % base

        def term(x):
            sx = ast.unparse(x)
            if sx in atoms:
                return atoms[sx]
            if isinstance(x, ast.Constant) and isinstance(x.value, int) and not isinstance(x.value, bool):
                return str(x.value)
            raise ExtractError('%s: cannot translate term `%s`' % (what, sx))
        if type(op) in CMP:
            return '(%s %s %s)' % (term(l), CMP[type(op)], term(r))
    raise ExtractError('%s: cannot translate `%s`' % (what, s))


def decision_function(fn, atoms, retval, what):
    """a function whose body is a sequence of `if test: return X` statements (docstring, logging and plain
    assignments are skipped) ending in `return Y` -> nested Lean `if ... then ... else ...` over Bool"""
    clauses = []
    final = None
    for st in fn.body:
        if isinstance(st, ast.Expr):          # docstring / logging call
            continue
        if isinstance(st, ast.Assign):
            continue
        if isinstance(st, ast.If) and not st.orelse and isinstance(st.body[-1], ast.Return) and \
                all(isinstance(b, (ast.Expr, ast.Return)) for b in st.body):
            clauses.append((st.test, st.body[-1].value))
            continue
        if isinstance(st, ast.Return):
            final = st.value
            break
        raise ExtractError('%s: unexpected statement `%s`' % (what, ast.unparse(st)[:60]))
    if final is None:
        raise ExtractError('%s: no final return' % what)
    expr = retval(final)
    for test, val in reversed(clauses):
        expr = '(if %s then %s else %s)' % (_bexpr(test, atoms, what), retval(val), expr)
    return expr


def generate():
    out = []
    emit = out.append
    emit('import Placement.Model.Basic')
    emit('/-')
    emit('  GENERATED by harness/extractors/guards.py from the working tree of openstack/placement - do not edit.')
    emit('  Guard expressions of the code, translated from their Python ASTs.  `Lemmas/GuardTie.lean` proves that')
    emit('  the hand-written model uses exactly these (by `rfl`), so a changed comparison or a dropped conjunct in')
    emit('  the source changes a definition here and the tie (and with it the property theorems) no longer checks.')
    emit('-/')
    emit('namespace Placement.Gen')
    emit('variable {R : Type} [CapOps R]')
    emit('')

    # ---------------------------------------------------------------- _check_capacity_exceeded
    t = ast.parse(src_of('objects/allocation.py'))
    f = find_func(t, '_check_capacity_exceeded')
    env = Env(f)
    atoms = {
        'amount_needed': ('amount', 'int'), 'alloc.used': ('amount', 'int'),
        'usage.min_unit': ('i.minUnit', 'int'), 'min_unit': ('i.minUnit', 'int'),
        'usage.max_unit': ('i.maxUnit', 'int'), 'max_unit': ('i.maxUnit', 'int'),
        'usage.step_size': ('i.stepSize', 'int'), 'step_size': ('i.stepSize', 'int'),
        'usage.total': ('i.total', 'int'), 'usage.reserved': ('i.reserved', 'int'),
        'usage.allocation_ratio': ('i.ratio', 'ratio'), 'allocation_ratio': ('i.ratio', 'ratio'),
        'usage.used': ('used', 'int'),
        'rp_resource_class_sum[rp_uuid][rc_id]': ('running', 'int'),
    }
    tr = Tr(env, atoms, '_check_capacity_exceeded')
    emit('/-- `_check_capacity_exceeded`: the test guarding InvalidAllocationConstraintsViolated -/')
    emit('def unitViolated (i : InvRow R) (amount : Int) : Bool :=')
    emit('  ' + tr.bool(guard_raising(f, 'InvalidAllocationConstraintsViolated', '_check_capacity_exceeded/unit')))
    emit('')
    emit('/-- `_check_capacity_exceeded`: the test guarding InvalidAllocationCapacityExceeded -/')
    emit('def capacityExceeded (i : InvRow R) (used amount running : Int) : Bool :=')
    emit('  ' + tr.bool(guard_raising(f, 'InvalidAllocationCapacityExceeded', '_check_capacity_exceeded/capacity')))
    emit('')
    # the zero-amount skip
    skips = [n for n in ast.walk(f) if isinstance(n, ast.If) and any(isinstance(b, ast.Continue) for b in n.body)]
    if len(skips) != 1:
        raise ExtractError('_check_capacity_exceeded: expected one `continue` guard')
    emit('/-- `_check_capacity_exceeded`: entries skipped by the loop -/')
    emit('def skipEntry (amount : Int) : Bool :=')
    emit('  ' + tr.bool(skips[0].test))
    emit('')

    # ---------------------------------------------------------------- Inventory.capacity / _validate_inventory_capacity
    t = ast.parse(src_of('objects/inventory.py'))
    f = find_func(t, 'Inventory.capacity')
    rets = [n for n in ast.walk(f) if isinstance(n, ast.Return)]
    if len(rets) != 1:
        raise ExtractError('Inventory.capacity: expected one return')
    tr = Tr(None, {'self.total': ('total', 'int'), 'self.reserved': ('reserved', 'int'),
                   'self.allocation_ratio': ('ratio', 'ratio')}, 'Inventory.capacity')
    emit('/-- `Inventory.capacity` -/')
    emit('def inventoryCapacity (total reserved : Int) (ratio : R) : Int :=')
    emit('  ' + tr.int(rets[0].value))
    emit('')
    t = ast.parse(src_of('handlers/inventory.py'))
    f = find_func(t, '_validate_inventory_capacity')
    # if not version.matches((1, N)): op = operator.le ... else: op = operator.lt
    top = [n for n in f.body if isinstance(n, ast.If)]
    if not top:
        raise ExtractError('_validate_inventory_capacity: version test not found')
    test = top[0].test
    if not (isinstance(test, ast.UnaryOp) and isinstance(test.op, ast.Not) and 'matches' in ast.unparse(test.operand)):
        raise ExtractError('_validate_inventory_capacity: unexpected version test `%s`' % ast.unparse(test))
    ver = ast.literal_eval(test.operand.args[0])
    ops_ = {}
    for branch, name in ((top[0].body, 'below'), (top[0].orelse, 'from')):
        for n in branch:
            if isinstance(n, ast.Assign) and ast.unparse(n.targets[0]) == 'op':
                ops_[name] = ast.unparse(n.value)
    sym = {'operator.le': '≤', 'operator.lt': '<', 'operator.ge': '≥', 'operator.gt': '>'}
    if set(ops_) != {'below', 'from'} or any(v not in sym for v in ops_.values()):
        raise ExtractError('_validate_inventory_capacity: unexpected operators %s' % ops_)
    loop = [n for n in ast.walk(f) if isinstance(n, ast.If) and ast.unparse(n.test).startswith('op(')]
    if len(loop) != 1 or ast.unparse(loop[0].test) != 'op(inventory.capacity, 0)':
        raise ExtractError('_validate_inventory_capacity: unexpected rejection test')
    emit('/-- `_validate_inventory_capacity`: `op(inventory.capacity, 0)` with `op` chosen by microversion 1.%d -/' % ver[1])
    emit('def inventoryCapacityInvalid (mv : Nat) (cap : Int) : Bool :=')
    emit('  if mv < %d then decide (cap %s 0) else decide (cap %s 0)' % (ver[1], sym[ops_['below']], sym[ops_['from']]))
    emit('')

    # ---------------------------------------------------------------- increment_generation (provider, consumer)
    for rel, qual, lean, row in (('objects/resource_provider.py', 'ResourceProvider.increment_generation', 'rp', 'RpRow'),
                                 ('objects/consumer.py', 'Consumer.increment_generation', 'cons', 'ConsRow')):
        t = ast.parse(src_of(rel))
        f = find_func(t, qual)
        env = Env(f)
        wheres = [n for n in ast.walk(f) if isinstance(n, ast.Call) and ast.unparse(n.func).endswith('.where')]
        if len(wheres) != 1:
            raise ExtractError('%s: expected one .where()' % qual)
        tbl = 'r'
        atoms = {}
        for col, fld in (('id', 'id'), ('generation', 'gen')):
            for pref in ('_RP_TBL.c.', 'CONSUMER_TBL.c.'):
                atoms[pref + col] = ('%s.%s' % (tbl, fld), 'int')
        atoms['self.id'] = ('id', 'int')
        atoms['self.generation'] = ('gen', 'int')
        tr = Tr(env, atoms, qual)
        emit('/-- `%s`: WHERE clause of the compare-and-swap UPDATE -/' % qual)
        emit('def %sCasWhere (id gen : Nat) (r : %s) : Bool :=' % (lean, row))
        emit('  ' + tr.bool(wheres[0].args[0]).replace('(decide (r.id = id))', '(r.id == id)').replace('(decide (r.gen = gen))', '(r.gen == gen)'))
        vals = [n for n in ast.walk(f) if isinstance(n, ast.Call) and ast.unparse(n.func).endswith('.values')]
        if len(vals) != 1 or [k.arg for k in vals[0].keywords] != ['generation']:
            raise ExtractError('%s: unexpected .values()' % qual)
        tr2 = Tr(env, {'rp_gen': ('gen', 'int'), 'consumer_gen': ('gen', 'int')}, qual)
        emit('/-- `%s`: the new generation -/' % qual)
        emit('def %sCasNew (gen : Nat) : Nat := %s' % (lean, tr2.int(vals[0].keywords[0].value)))
        fails = [n for n in ast.walk(f) if isinstance(n, ast.If) and any(isinstance(b, ast.Raise) for b in n.body)]
        if len(fails) != 1 or ast.unparse(fails[0].test) != 'res.rowcount != 1':
            raise ExtractError('%s: unexpected rowcount test' % qual)
        emit('/-- `%s`: the failure test on the number of rows updated -/' % qual)
        emit('def %sCasFailed (rowcount : Nat) : Bool := rowcount != 1' % lean)
        emit('')

    # ---------------------------------------------------------------- ensure_consumer comparisons
    t = ast.parse(src_of('handlers/util.py'))
    f = find_func(t, 'ensure_consumer')
    conflicts = []
    for n in ast.walk(f):
        if isinstance(n, ast.If) and any(isinstance(b, ast.Raise) and 'HTTPConflict' in ast.unparse(b) for b in n.body):
            conflicts.append(ast.unparse(n.test))
    if conflicts != ['consumer.generation != consumer_generation', 'consumer_generation is not None']:
        raise ExtractError('ensure_consumer: unexpected generation tests %s' % conflicts)
    req = {}
    for n in ast.walk(f):
        if isinstance(n, ast.Assign) and isinstance(n.targets[0], ast.Name) and n.targets[0].id in (
                'requires_consumer_generation', 'requires_consumer_type'):
            req[n.targets[0].id] = ast.literal_eval(n.value.args[0])
    if set(req) != {'requires_consumer_generation', 'requires_consumer_type'}:
        raise ExtractError('ensure_consumer: version gates not found')
    emit('/-- `ensure_consumer`: existing consumer, generation mismatch (409) -/')
    emit('def consumerGenMismatch (stored : Nat) (given : Option Nat) : Bool := some stored != given')
    emit('/-- `ensure_consumer`: no such consumer but a generation was supplied (409) -/')
    emit('def consumerGenUnexpected (given : Option Nat) : Bool := given.isSome')
    emit('def requiresConsumerGeneration (mv : Nat) : Bool := decide (mv ≥ %d)' % req['requires_consumer_generation'][1])
    emit('def requiresConsumerType (mv : Nat) : Bool := decide (mv ≥ %d)' % req['requires_consumer_type'][1])
    emit('')

    # ---------------------------------------------------------------- _capacity_check_clause (SQL, candidate / filter path)
    t = ast.parse(src_of('objects/research_context.py'))
    f = find_func(t, '_capacity_check_clause')
    rets = [n for n in ast.walk(f) if isinstance(n, ast.Return)]
    if len(rets) != 1 or not ast.unparse(rets[0].value.func).endswith('and_'):
        raise ExtractError('_capacity_check_clause: unexpected shape')
    atoms = {'amount': ('amount', 'int'), 'usage.c.used': ('used', 'int'),
             'inv_tbl.c.total': ('i.total', 'int'), 'inv_tbl.c.reserved': ('i.reserved', 'int'),
             'inv_tbl.c.allocation_ratio': ('i.ratio', 'ratio'), 'inv_tbl.c.min_unit': ('i.minUnit', 'int'),
             'inv_tbl.c.max_unit': ('i.maxUnit', 'int'), 'inv_tbl.c.step_size': ('i.stepSize', 'int')}
    tr = Tr(None, atoms, '_capacity_check_clause')
    emit('/-- `research_context._capacity_check_clause`: the SQL room test of provider filters and candidates -/')
    emit('def sqlRoom (i : InvRow R) (used amount : Int) : Bool :=')
    emit('  ' + tr.bool(rets[0].value))
    emit('')

    # ---------------------------------------------------------------- exceeds_capacity (merged candidates)
    f = find_func(t, 'exceeds_capacity')
    tests = [n.test for n in ast.walk(f) if isinstance(n, ast.If) and any(isinstance(b, ast.Return) for b in n.body)]
    if [ast.unparse(x) for x in tests] != ['psum_res.used + arr.amount > psum_res.capacity', 'arr.amount > psum_res.max_unit']:
        raise ExtractError('exceeds_capacity: unexpected tests %s' % [ast.unparse(x) for x in tests])
    tr = Tr(None, {'psum_res.used': ('used', 'int'), 'arr.amount': ('amount', 'int'), 'psum_res.capacity': ('capacity', 'int'),
                   'psum_res.max_unit': ('maxUnit', 'int')}, 'exceeds_capacity')
    emit('/-- `exceeds_capacity`: tests on a merged allocation request against the provider summary -/')
    emit('def summaryExceeded (used amount capacity maxUnit : Int) : Bool :=')
    emit('  (' + ' || '.join(tr.bool(x) for x in tests) + ')')
    emit('')

    # ---------------------------------------------------------------- merging candidates (C02 / C03)
    f = find_func(t, 'copy_arr_if_needed')
    atoms = {('self.group_policy', 'none'): 'policyNone', ('self.group_policy', 'isolate'): 'isolate',
             ('arr.resource_class', 'in', 'self.multi_group_rcs'): 'inMulti'}

    def copy_ret(v):
        sv = ast.unparse(v)
        if sv == 'arr':
            return 'false'
        if sv in ('copy.copy(arr)', 'copy.deepcopy(arr)'):
            return 'true'
        raise ExtractError('copy_arr_if_needed: unexpected return value `%s`' % sv)
    emit('/-- `RequestWideSearchContext.copy_arr_if_needed`: is the AllocationRequestResource COPIED before amounts of the')
    emit('same (provider, class) are added onto it while allocation requests are consolidated? -/')
    emit('def copyArrNeeded (policyNone isolate inMulti : Bool) : Bool :=')
    emit('  ' + decision_function(f, atoms, copy_ret, 'copy_arr_if_needed'))
    emit('')
    # ---------------------------------------------------------------- limit_results (C20)
    f = inline_pure_locals(find_func(t, 'limit_results'))
    top = [st for st in f.body if isinstance(st, ast.If)]
    if len(top) != 1 or len(top[0].orelse) != 1 or not isinstance(top[0].orelse[0], ast.If):
        raise ExtractError('limit_results: expected one `if <limiting> ... elif <randomize> ...`')
    atoms = {('truth', 'self._limit'): '(limit != 0)', 'self._limit': 'limit', 'len(alloc_request_objs)': 'nRequests',
             'len(summary_objs)': 'nSummaries',
             'self._ctx.config.placement.randomize_allocation_candidates': 'randomize'}
    emit('/-- `limit_results`: does the limit cut the list?  (`limit` = 0 when the request has none) -/')
    emit('def limitApplies (limit nRequests nSummaries : Nat) : Bool :=')
    emit('  ' + _bexpr(top[0].test, atoms, 'limit_results'))
    emit('/-- `limit_results`: when the limit does not cut the list, is it shuffled? -/')
    emit('def shuffleWhenUnlimited (randomize : Bool) : Bool :=')
    emit('  ' + _bexpr(top[0].orelse[0].test, atoms, 'limit_results'))
    # the list expressions of the function (the model `Spec.limitRequests / limitSummaries` is written for exactly these)
    body = top[0].body
    inner = body[0] if body and isinstance(body[0], ast.If) else None
    shape = {
        'randomize test': ast.unparse(inner.test) if inner is not None else None,
        'sample': ast.unparse(inner.body[0]) if inner is not None and len(inner.body) == 1 else None,
        'slice': ast.unparse(inner.orelse[0]) if inner is not None and len(inner.orelse) == 1 else None,
        'roots from': [ast.unparse(n.iter) for n in ast.walk(top[0]) if isinstance(n, ast.For)],
        'shuffle': [ast.unparse(b) for b in top[0].orelse[0].body],
        'returns': [ast.unparse(st.value) for st in f.body if isinstance(st, ast.Return)],
        'summary filter': [ast.unparse(n.test) for n in ast.walk(top[0]) if isinstance(n, ast.If) and
                           any(isinstance(b, ast.Continue) for b in n.body)],
    }
    expected = {
        'randomize test': 'self._ctx.config.placement.randomize_allocation_candidates',
        'sample': 'alloc_request_objs = random.sample(alloc_request_objs, self._limit)',
        'slice': 'alloc_request_objs = alloc_request_objs[:self._limit]',
        'roots from': ['alloc_request_objs', 'summary_objs', 'aro.resource_requests'],
        'shuffle': ['random.shuffle(alloc_request_objs)'],
        'returns': ['(alloc_request_objs, summary_objs)'],
        'summary filter': ['rp_root_uuid not in alloc_req_root_uuids'],
    }
    if shape != expected:
        diff = {k: (shape[k], expected[k]) for k in expected if shape[k] != expected[k]}
        raise ExtractError('limit_results: the list expressions are not the ones the model was written for: %s' % diff)
    emit('')

    t2 = ast.parse(src_of('objects/allocation_candidate.py'))
    f = find_func(t2, '_satisfies_group_policy')
    atoms = {('group_policy', 'isolate'): 'isolate', ('group_policy', 'none'): 'policyNone',
             'num_granular_groups': 'numGranular', 'num_granular_groups_in_areqs': 'numDistinct'}

    def bool_ret(atoms_):
        def r(v):
            return _bexpr(v, atoms_, 'return value')
        return r
    emit('/-- `_satisfies_group_policy`: `numDistinct` = number of distinct providers serving the granular groups -/')
    emit('def groupPolicyOk (policyNone isolate : Bool) (numGranular numDistinct : Nat) : Bool :=')
    emit('  ' + decision_function(f, atoms, bool_ret(atoms), '_satisfies_group_policy'))
    emit('')
    f = find_func(t2, '_check_same_subtree')
    atoms = {'len(rp_uuids)': 'nProviders', 'len(common_ancestors.intersection(rp_uuids))': 'nCommonAmongThem'}
    emit('/-- `_check_same_subtree`: `nCommonAmongThem` = how many of the providers are a common ancestor-or-self of all -/')
    emit('def sameSubtreeOk (nProviders nCommonAmongThem : Nat) : Bool :=')
    emit('  ' + decision_function(f, atoms, bool_ret(atoms), '_check_same_subtree'))
    emit('')

    # ---------------------------------------------------------------- replace_all: the server-side retry loop
    ta = ast.parse(src_of('objects/allocation.py'))
    f = find_func(ta, 'replace_all')
    loops = [st for st in f.body if isinstance(st, ast.While)]
    if len(loops) != 1:
        raise ExtractError('replace_all: expected exactly one while loop')
    w = loops[0]
    cnt = ast.unparse(w.test)
    if not (isinstance(w.test, ast.Name) and len(w.body) == 2 and isinstance(w.body[0], ast.AugAssign) and
            ast.unparse(w.body[0]) == '%s -= 1' % cnt and isinstance(w.body[1], ast.Try)):
        raise ExtractError('replace_all: loop is not `while n: n -= 1; try: ...`')
    tr_ = w.body[1]
    if [ast.unparse(x) for x in tr_.body] != ['_set_allocations(context, alloc_list)', 'break'] or tr_.orelse or tr_.finalbody:
        raise ExtractError('replace_all: try body is not `_set_allocations(context, alloc_list); break`')
    if len(tr_.handlers) != 1 or ast.unparse(tr_.handlers[0].type) != 'exception.ResourceProviderConcurrentUpdateDetected':
        raise ExtractError('replace_all: expected one handler for ResourceProviderConcurrentUpdateDetected')
    latoms = {('truth', cnt): '(r != 0)', cnt: 'r'}
    JUMP = (ast.Break, ast.Continue, ast.Return, ast.Raise)

    def outcome(st):
        if isinstance(st, ast.Break):
            return '.leftWithoutSuccess'          # leaves the loop WITHOUT running its `else:` clause
        if isinstance(st, ast.Return):
            return '.leftWithoutSuccess'
        if isinstance(st, ast.Continue):
            return 'replaceAllLoop attempt r (i + 1)'
        if isinstance(st, ast.Raise):
            return '.raisedConflict' if st.exc is None or 'ResourceProviderConcurrentUpdateDetected' in ast.unparse(st.exc) \
                else '.raisedOther'
        raise ExtractError('replace_all: unexpected jump')
    # the handler: statements without jumps are skipped; `if <test on the counter>: <jump>` becomes a branch
    rest = 'replaceAllLoop attempt r (i + 1)'
    branches = []
    for st in tr_.handlers[0].body:
        jumps = [n for n in ast.walk(st) if isinstance(n, JUMP)]
        if not jumps:
            continue
        if isinstance(st, JUMP):
            rest = outcome(st)
            break
        if isinstance(st, ast.If) and not st.orelse and len(st.body) >= 1 and isinstance(st.body[-1], JUMP) and \
                not any(isinstance(n, JUMP) for b in st.body[:-1] for n in ast.walk(b)):
            branches.append((_bexpr(st.test, latoms, 'replace_all handler'), outcome(st.body[-1])))
            continue
        raise ExtractError('replace_all: cannot translate the control flow of the conflict handler: `%s`' % ast.unparse(st)[:80])
    hexpr = rest
    for test, out_ in reversed(branches):
        hexpr = '(if %s then %s else %s)' % (test, out_, hexpr)
    if w.orelse and isinstance(w.orelse[-1], ast.Raise) and \
            not any(isinstance(n, (ast.Break, ast.Continue, ast.Return)) for b in w.orelse for n in ast.walk(b)):
        exhausted = outcome(w.orelse[-1])
    elif not w.orelse:
        exhausted = '.leftWithoutSuccess'
    else:
        raise ExtractError('replace_all: cannot translate the `else:` clause of the loop')
    emit('/-- how `replace_all` can end -/')
    emit('inductive LoopEnd where')
    emit('  | succeeded (attempt : Nat) | raisedConflict | raisedOther | leftWithoutSuccess')
    emit('deriving DecidableEq, Repr')
    emit('/-- control flow of the retry loop of `replace_all` (`while retries: retries -= 1; try: _set_allocations; break;')
    emit('except ResourceProviderConcurrentUpdateDetected: ...; else: raise`), translated from its AST: `attempt i` = does the')
    emit('i-th call of `_set_allocations` succeed, first argument = attempts left, `leftWithoutSuccess` = the function returns')
    emit('normally although no attempt succeeded -/')
    emit('def replaceAllLoop (attempt : Nat → Bool) : Nat → Nat → LoopEnd')
    emit('  | 0, _ => %s' % exhausted)
    emit('  | r + 1, i => if attempt i then .succeeded i else %s' % hexpr)
    emit('')

    # ---------------------------------------------------------------- constants
    from placement.objects import resource_class as rc_mod
    from placement.db import constants as db_const
    from placement import conf as pconf
    from oslo_config import cfg
    c = cfg.ConfigOpts()
    pconf.register_opts(c)
    emit('def minCustomRcId : Nat := %d' % rc_mod.ResourceClass.MIN_CUSTOM_RESOURCE_CLASS_ID)
    emit('def maxInt : Int := %d' % db_const.MAX_INT)
    emit('def allocationConflictRetryCount : Nat := %d' % c.placement.allocation_conflict_retry_count)
    emit('')
    emit('end Placement.Gen')
    return {'Guards.lean': '\n'.join(out) + '\n'}


if __name__ == '__main__':
    print(generate()['Guards.lean'])
