"""Document generators for C15: type-directed valid documents for a JSON schema, grammar-based
mutations, the tagged encoding understood by lean/SchemaDriver.lean, a regex sampler.
Shared by the cross-validation and by the malformed request stream of harness/props/c15.py."""
import copy
import json
import re
try:
    import re._parser as sre_parse
    import re._constants as sre_c
except ImportError:  # pragma: no cover
    import sre_parse
    import sre_constants as sre_c

NAN = float('nan')
INF = float('inf')

INTS = [0, -1, 1, 2, 2 ** 31 - 2, 2 ** 31 - 1, 2 ** 31, 2 ** 31 + 1, 2 ** 32, 2 ** 53 + 1, 2 ** 63 - 1, 2 ** 63,
        2 ** 63 + 1, -(2 ** 63), -(2 ** 63) - 1, 10 ** 30, -(2 ** 31) - 1]
FLOATS = [0.0, -0.0, 1.0, 2.0, 1.5, 0.1, -1.5, 1e-300, 1e300, 3.40282e+38, 3.5e+38, 2147483647.0, 2147483648.0,
          1e400, -1e400, NAN, INF, -INF, 5e-324]
STRINGS = ['', 'x', 'VCPU', 'vcpu', 'VCPU\n', 'CUSTOM_X', 'CUSTOM_X\n', 'CUSTOM_', 'CUSTOM_x', ' CUSTOM_X', 'CUSTOM_X\n\n',
           'CUSTOM_É', 'é', '\U0001f4a5', '\x00', 'a\x00b', '\x7f', '\t', '\r\n', 'A' * 255, 'A' * 256,
           'CUSTOM_' + 'A' * 248, 'CUSTOM_' + 'A' * 249, 'B' * 200, 'B' * 201, 'C' * 1000, 'none', 'isolate', 'all',
           'allx', 'unknown', 'unknown\n', 'in:', '!', 'null', 'true', '1', '-1', '1.0', ' 1', '١', 'INSTANCE',
           'instance', 'MIGRATION', '%s', '{}', '"', "'", '\\', ' ', '﻿', 'CUSTOM_X\r', '_', '0', 'Z9_']
UUIDS = ['11111111-1111-1111-1111-111111111111', '11111111111111111111111111111111',
         '{11111111-1111-1111-1111-111111111111}', 'urn:uuid:11111111-1111-1111-1111-111111111111',
         'AAAAAAAA-AAAA-AAAA-AAAA-AAAAAAAAAAAA', 'aaaaaaaa-aaaa-aaaa-aaaa-aaaaaaaaaaa', 'gggggggg-1111-1111-1111-111111111111',
         '1111-1111', '11111111-1111-1111-1111-111111111111\n', ' 11111111-1111-1111-1111-111111111111',
         '1-1-1-1-1-1-1-1-1-1-1-1-1-1-1-1-1-1-1-1-1-1-1-1-1-1-1-1-1-1-1-1', '------------------------------------',
         '١١111111-1111-1111-1111-111111111111', '+1111111-1111-1111-1111-111111111111',
         '0x111111-1111-1111-1111-111111111111', '1111_111-1111-1111-1111-111111111111',
         'uuid:urn:{{11111111-1111-1111-1111-111111111111}}', 'uurn:uid:11111111-1111-1111-1111-111111111111',
         '{', '}', '-', 'urn:', 'urn:uuid:', '11111111-1111-1111-1111-11111111111G', '11111111-1111-1111-1111-1111111111111']
SURROGATE = '\ud800'


def scalars():
    return [None, True, False] + INTS + FLOATS + STRINGS + UUIDS


# --------------------------------------------------------------------------- regex sampler

def sample_regex(pattern, rng, exotic=False):
    """A string matched by `pattern` (for the constructs the tree uses)."""
    parsed = sre_parse.parse(pattern)
    return ''.join(_sample(parsed, rng, exotic))


def _sample(items, rng, exotic):
    out = []
    for op, av in items:
        if op is sre_c.LITERAL:
            out.append(chr(av))
        elif op is sre_c.IN:
            choices = []
            for o, a in av:
                if o is sre_c.LITERAL:
                    choices.append(chr(a))
                elif o is sre_c.RANGE:
                    choices.append(chr(rng.randint(a[0], a[1])))
            out.append(rng.choice(choices) if choices else 'A')
        elif op is sre_c.ANY:
            out.append('x')
        elif op is sre_c.AT:
            pass
        elif op in (sre_c.MAX_REPEAT, sre_c.MIN_REPEAT):
            lo, hi, sub = av
            hi = lo + 3 if hi is sre_c.MAXREPEAT or hi > 1000 else hi
            n = rng.choice([lo, hi, rng.randint(lo, hi)]) if exotic else rng.randint(lo, min(hi, lo + 3))
            for _ in range(n):
                out.extend(_sample(sub, rng, exotic))
        elif op is sre_c.SUBPATTERN:
            out.extend(_sample(av[3], rng, exotic))
        elif op is sre_c.BRANCH:
            out.extend(_sample(rng.choice(av[1]), rng, exotic))
        else:
            out.append('?')
    return out


# --------------------------------------------------------------------------- type-directed valid documents

class Hints(object):
    """Semantic hints: make generated values refer to things that exist.  Default: syntactically valid only."""

    def string(self, path, schema, rng):
        return None

    def integer(self, path, schema, rng):
        return None

    def key(self, path, pattern, rng):
        return None

    def value(self, path, schema, rng):
        """complete override (return (True, v)) or None"""
        return None


def gen_valid(schema, rng, hints=None, path=()):
    hints = hints or Hints()
    ov = hints.value(path, schema, rng)
    if ov is not None:
        return ov[1]
    if 'anyOf' in schema:
        return gen_valid(rng.choice(schema['anyOf']), rng, hints, path)
    if 'enum' in schema:
        return copy.deepcopy(rng.choice(schema['enum']))
    t = schema.get('type')
    if isinstance(t, list):
        t = rng.choice(t)
    if t is None:
        t = 'object' if ('properties' in schema or 'patternProperties' in schema) else 'string'
    if t == 'object':
        out = {}
        props = schema.get('properties', {})
        req = schema.get('required', [])
        for k in props:
            if k in req or rng.random() < 0.5:
                out[k] = gen_valid(props[k], rng, hints, path + (k,))
        pats = schema.get('patternProperties', {})
        need = max(0, schema.get('minProperties', 0) - len(out))
        if pats:
            n = need + rng.choice([0, 1, 1, 2])
            plist = list(pats.items())
            for _ in range(n * 3):
                if n <= 0:
                    break
                pat, sub = rng.choice(plist)
                k = hints.key(path, pat, rng)
                if k is None:
                    k = sample_regex(pat, rng)
                if k in out:
                    continue
                out[k] = gen_valid(sub, rng, hints, path + (k,))
                n -= 1
        return out
    if t == 'array':
        lo = schema.get('minItems', 0)
        n = lo + rng.choice([0, 1, 1, 2])
        items = schema.get('items', {'type': 'string'})
        out = []
        for i in range(n):
            v = gen_valid(items, rng, hints, path + (i,))
            if schema.get('uniqueItems') and v in out:
                continue
            out.append(v)
        while len(out) < lo:
            out.append(gen_valid(items, rng, hints, path + (len(out),)))
        return out
    if t == 'string':
        h = hints.string(path, schema, rng)
        if h is not None:
            return h
        if schema.get('format') == 'uuid':
            return '%08x-%04x-%04x-%04x-%012x' % (rng.getrandbits(32), rng.getrandbits(16), rng.getrandbits(16),
                                                  rng.getrandbits(16), rng.getrandbits(48))
        if 'pattern' in schema:
            return sample_regex(schema['pattern'], rng)[:schema.get('maxLength', 10 ** 6)]
        lo = schema.get('minLength', 0)
        return 'n' + 'a' * max(0, lo - 1) + str(rng.randint(0, 9999)) if lo <= 5 else 'a' * lo
    if t == 'integer':
        h = hints.integer(path, schema, rng)
        if h is not None:
            return h
        lo = schema.get('minimum', 0)
        hi = schema.get('maximum', lo + 100)
        return rng.randint(int(lo), min(int(hi), int(lo) + 16))
    if t == 'number':
        return rng.choice([1.0, 0.5, 1.5, 16.0, 2, 1])
    if t == 'null':
        return None
    if t == 'boolean':
        return rng.random() < 0.5
    raise ValueError('gen_valid: type %r' % (t,))


# --------------------------------------------------------------------------- mutations of a JSON tree

def _paths(doc, path=()):
    yield path
    if isinstance(doc, dict):
        for k, v in doc.items():
            for p in _paths(v, path + (k,)):
                yield p
    elif isinstance(doc, list):
        for i, v in enumerate(doc):
            for p in _paths(v, path + (i,)):
                yield p


def _get(doc, path):
    for p in path:
        doc = doc[p]
    return doc


def _set(doc, path, v):
    if not path:
        return v
    parent = _get(doc, path[:-1])
    parent[path[-1]] = v
    return doc


KEYS_EXOTIC = ['vcpu', 'VCPU\n', 'CUSTOM_X\n', '', ' ', '\x00', 'é', 'A' * 300, '11111111-1111-1111-1111-111111111111\n',
               'not-a-uuid', '__proto__', 'total', 'resources', 'extra', '\U0001f4a5', '$ref', 'a' * 65]

BODY_KINDS = ['body:drop-key', 'body:extra-key', 'body:type-swap', 'body:int-bound', 'body:float', 'body:nonfinite',
              'body:string-exotic', 'body:uuid-exotic', 'body:key-exotic', 'body:key-newline', 'body:dup-items',
              'body:empty-container', 'body:null', 'body:top-level-type', 'body:nest', 'body:bool-for-int',
              'body:int-as-float', 'body:long-string']


def mutate_doc(doc, rng, kind=None):
    """-> (mutated deep copy, kind).  Falls back to another kind when the chosen one does not apply."""
    doc = copy.deepcopy(doc)
    kinds = [kind] if kind else []
    kinds += rng.sample(BODY_KINDS, len(BODY_KINDS))
    paths = list(_paths(doc))
    for k in kinds:
        dict_paths = [p for p in paths if isinstance(_get(doc, p), dict)]
        nonroot = [p for p in paths if p]
        leaf = [p for p in nonroot if not isinstance(_get(doc, p), (dict, list))]
        if k == 'body:drop-key':
            c = [p for p in dict_paths if _get(doc, p)]
            if not c:
                continue
            d = _get(doc, rng.choice(c))
            del d[rng.choice(sorted(d, key=str))]
            return doc, k
        if k == 'body:extra-key':
            if not dict_paths:
                continue
            d = _get(doc, rng.choice(dict_paths))
            d[rng.choice(KEYS_EXOTIC)] = rng.choice([1, 'x', None, {}, [], 5, {'total': 'x'}, 1.5, True])
            return doc, k
        if k == 'body:type-swap':
            if not nonroot:
                continue
            p = rng.choice(nonroot)
            return _set(doc, p, rng.choice([None, True, 0, 1, 'x', [], {}, [1], {'a': 1}, 1.5, '1', ['x'], [{}]])), k
        if k == 'body:int-bound':
            c = [p for p in leaf if isinstance(_get(doc, p), int) and not isinstance(_get(doc, p), bool)] or leaf
            if not c:
                continue
            return _set(doc, rng.choice(c), rng.choice(INTS)), k
        if k == 'body:float':
            if not leaf:
                continue
            return _set(doc, rng.choice(leaf), rng.choice([f for f in FLOATS if f == f and abs(f) != INF])), k
        if k == 'body:nonfinite':
            c = [p for p in leaf if isinstance(_get(doc, p), (int, float)) and not isinstance(_get(doc, p), bool)] or leaf
            if not c:
                continue
            return _set(doc, rng.choice(c), rng.choice([NAN, INF, -INF, 1e400, -1e400])), k
        if k == 'body:string-exotic':
            c = [p for p in leaf if isinstance(_get(doc, p), str)] or leaf
            if not c:
                continue
            return _set(doc, rng.choice(c), rng.choice(STRINGS)), k
        if k == 'body:uuid-exotic':
            c = [p for p in leaf if isinstance(_get(doc, p), str)] or leaf
            if not c:
                continue
            return _set(doc, rng.choice(c), rng.choice(UUIDS)), k
        if k == 'body:long-string':
            c = [p for p in leaf if isinstance(_get(doc, p), str)] or leaf
            if not c:
                continue
            return _set(doc, rng.choice(c), rng.choice(['A', 'CUSTOM_A', 'é']) * rng.choice([255, 256, 1000, 70000])), k
        if k in ('body:key-exotic', 'body:key-newline'):
            c = [p for p in dict_paths if _get(doc, p)]
            if not c:
                continue
            d = _get(doc, rng.choice(c))
            old = rng.choice(sorted(d, key=str))
            new = old + '\n' if k == 'body:key-newline' else rng.choice(KEYS_EXOTIC + [old.lower(), old.upper(), old + ' '])
            v = d.pop(old)
            d[new] = v
            return doc, k
        if k == 'body:dup-items':
            c = [p for p in paths if isinstance(_get(doc, p), list) and _get(doc, p)]
            if not c:
                continue
            lst = _get(doc, rng.choice(c))
            lst.append(copy.deepcopy(lst[0]))
            if rng.random() < 0.3 and isinstance(lst[0], str):
                lst[-1] = lst[0].upper()
            return doc, k
        if k == 'body:empty-container':
            c = [p for p in nonroot if isinstance(_get(doc, p), (dict, list))]
            if not c:
                continue
            p = rng.choice(c)
            return _set(doc, p, type(_get(doc, p))()), k
        if k == 'body:null':
            if not nonroot:
                continue
            return _set(doc, rng.choice(nonroot), None), k
        if k == 'body:top-level-type':
            return rng.choice([None, [], {}, 'x', 5, True, [doc], 1.5, [[]], [{}], '']), k
        if k == 'body:nest':
            if not nonroot:
                continue
            p = rng.choice(nonroot)
            v = _get(doc, p)
            return _set(doc, p, rng.choice([[v], {'x': v}, {'resources': v}, [[v]]])), k
        if k == 'body:bool-for-int':
            c = [p for p in leaf if isinstance(_get(doc, p), int) and not isinstance(_get(doc, p), bool)]
            if not c:
                continue
            return _set(doc, rng.choice(c), rng.choice([True, False])), k
        if k == 'body:int-as-float':
            c = [p for p in leaf if isinstance(_get(doc, p), int) and not isinstance(_get(doc, p), bool)]
            if not c:
                continue
            p = rng.choice(c)
            return _set(doc, p, float(_get(doc, p)) + rng.choice([0.0, 0.0, 0.5])), k
    return doc, 'body:none-applicable'


# --------------------------------------------------------------------------- encoding for the Lean driver

class Unencodable(Exception):
    pass


def _points(s):
    out = [ord(c) for c in s]
    if any(0xD800 <= o <= 0xDFFF for o in out):
        raise Unencodable('lone surrogate')
    return out


def encode(v):
    if v is None or isinstance(v, bool):
        return v
    if isinstance(v, int):
        return {'i': str(v)}
    if isinstance(v, float):
        if v != v:
            return {'x': 'nan'}
        if v == INF:
            return {'x': 'inf'}
        if v == -INF:
            return {'x': 'ninf'}
        n, d = v.as_integer_ratio()
        return {'f': [str(n), str(d)]}
    if isinstance(v, str):
        return {'s': _points(v)}
    if isinstance(v, list):
        return {'a': [encode(x) for x in v]}
    if isinstance(v, dict):
        return {'o': [[_points(k), encode(x)] for k, x in v.items()]}
    raise Unencodable('type %s' % type(v))


def dumps(doc):
    """JSON text the way a client could send it (NaN / Infinity literals are what CPython's parser accepts)."""
    return json.dumps(doc, allow_nan=True, ensure_ascii=True)
