"""Run /repo's pinned test suite and compare with /root/.vp/BASELINE.json stable_pass."""
import json, subprocess, sys, xml.etree.ElementTree as ET, os, tempfile
def main():
    base = json.load(open('/root/.vp/BASELINE.json'))
    want = set(base['stable_pass'])
    out = '/dev/shm/baseline_junit.xml'
    subprocess.run(['/venv/bin/python', '-m', 'pytest', '-q', '-p', 'no:cacheprovider', '--timeout=900',
                    '--continue-on-collection-errors', '--junitxml=' + out], cwd='/repo', capture_output=True)
    passed = set()
    for tc in ET.parse(out).getroot().iter('testcase'):
        if not any(ch.tag in ('failure', 'error', 'skipped') for ch in tc):
            passed.add('%s::%s' % (tc.get('classname'), tc.get('name')))
    os.unlink(out)
    missing = sorted(want - passed)
    print('stable_pass %d, passed now %d, missing %d' % (len(want), len(passed & want), len(missing)))
    for m in missing[:20]:
        print('  MISSING', m)
    return 1 if missing else 0
if __name__ == '__main__':
    sys.exit(main())
