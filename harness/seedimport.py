"""Take a change produced by a seeding sub-agent into seeded/:
   python harness/seedimport.py <dir with patch.diff, demo.py, meta.json> <Cxx> [<extra checks> ...]
Verifies it (demo passes without / fails with the patch, pinned suite unchanged), runs the quick check of its own
property (and the extra ones) against it with the checks AS THEY ARE NOW, and stores everything as the next free
seeded/<Cxx>-<n>/ with the result recorded as "checks_run_first_round"."""
import fcntl
import json
import os
import re
import shutil
import subprocess
import sys

ROOT = os.path.dirname(os.path.dirname(os.path.abspath(__file__)))


def main():
    src, prop, extra = os.path.abspath(sys.argv[1]), sys.argv[2], sys.argv[3:]
    with open('/dev/shm/seedimport.lock', 'w') as lk:
        fcntl.flock(lk, fcntl.LOCK_EX)
        n = 1
        while os.path.exists(os.path.join(ROOT, 'seeded', '%s-%d' % (prop, n))):
            n += 1
        dst = os.path.join(ROOT, 'seeded', '%s-%d' % (prop, n))
        os.makedirs(dst)
    for f in os.listdir(src):
        if os.path.isfile(os.path.join(src, f)) and os.path.getsize(os.path.join(src, f)) < 200000:
            shutil.copy(os.path.join(src, f), dst)
    r = subprocess.run(['/venv/bin/python', os.path.join(ROOT, 'harness', 'seedtest.py'), dst, prop] + extra + ['--verify'],
                       capture_output=True, text=True)
    log = r.stdout + r.stderr
    open(os.path.join(dst, 'first_run.log'), 'w').write(log[-20000:])
    meta = json.load(open(os.path.join(dst, 'meta.json')))
    meta['id'] = os.path.basename(dst)
    meta['breaks_property'] = prop
    m = re.search(r"demo with patch: \((\d+), .*\| without: \((\d+),", log)
    s = re.search(r'suite with patch: (.*)', log)
    meta['verified'] = {
        'demo_exit_with_patch': int(m.group(1)) if m else None,
        'demo_exit_without_patch': int(m.group(2)) if m else None,
        'pinned_suite_with_patch': s.group(1).strip() if s else None,
        'how': 'python harness/seedtest.py seeded/%s <checks> --verify' % os.path.basename(dst)}
    res = {k: int(v) for k, v in re.findall(r'^(C\d\d) exit=(\d+)', log, flags=re.M)}
    meta['checks_run_first_round'] = res
    meta['violation_replays_first_round'] = sorted({re.sub(r'^.*replays/', '', l).strip()
                                                    for l in log.split('\n') if 'VIOLATION' in l})[:6]
    json.dump(meta, open(os.path.join(dst, 'meta.json'), 'w'), indent=1)
    ok = meta['verified']['demo_exit_with_patch'] not in (0, None) and meta['verified']['demo_exit_without_patch'] == 0 \
        and (meta['verified']['pinned_suite_with_patch'] or '').startswith('15 failed, 361 passed')
    print('%s from %s: verified=%s checks=%s' % (os.path.basename(dst), src, ok, res))
    for l in meta['violation_replays_first_round'][:4]:
        print('    ', l[:160])


if __name__ == '__main__':
    main()
