"""Shared machinery of every check: Lean stage (translate, build, audit), violations,
known findings, evidence, verdict.  See DESIGN.md sections 2.3 and 8."""
import fcntl
import hashlib
import json
import os
import random
import re
import subprocess
import sys
import time

ROOT = os.path.dirname(os.path.dirname(os.path.abspath(__file__)))
LEAN = os.path.join(ROOT, 'lean')
EVID = os.path.join(ROOT, 'evidence')
REPLAYS = os.path.join(ROOT, 'replays')
FINDINGS = os.path.join(ROOT, 'KNOWN_FINDINGS.json')
REPO = os.environ.get('PLACEMENT_REPO', '/repo')
ALLOWED_AXIOMS = {'propext', 'Classical.choice', 'Quot.sound'}
FORBIDDEN = re.compile(r'\b(sorry|admit|native_decide|bv_decide|implemented_by|unsafe)\b|^\s*axiom\s|maxHeartbeats\s+0')

TRUSTED_BASE = [
    'Lean 4.33 kernel (thorough tier: re-checked by leanchecker)',
    'axioms: subset of {propext, Classical.choice, Quot.sound}; audited per theorem with #print axioms on every run',
    'harness/extract.py (translator from /repo sources to lean/Placement/Gen/*.lean), unverified Python',
    'correspondence harness (harness/*.py) and the Lean driver lean/Main.lean, unverified glue',
    'SQLite + SQLAlchemy + oslo.db executing the SQL the model renders as list comprehensions',
]


def load_findings():
    try:
        with open(FINDINGS) as f:
            return json.load(f)
    except IOError:
        return {'findings': []}


class Violation(object):
    def __init__(self, kind, signature, detail, replay):
        self.kind = kind            # 'monitor' | 'correspondence' | 'proof'
        self.signature = signature  # stable string used for known-finding matching
        self.detail = detail
        self.replay = replay        # JSON-able object


class Check(object):
    def __init__(self, pid, tier, seed, level='proof'):
        self.pid, self.tier, self.seed, self.level = pid, tier, seed, level
        self.t0 = time.time()
        self.rng = random.Random(seed)
        self.violations = []
        self.cov = {'evaluations': 0, 'distinct_nontrivial': 0, 'rule': '', 'samples': []}
        self.assumptions = []
        self.lean = {'ok': None, 'theorems': [], 'axioms': {}, 'broken': [], 'extract_errors': []}
        self.notes = []
        self._distinct = set()

    # ------------------------------------------------------------ coverage helpers
    def count(self, key, n=1):
        self.cov[key] = self.cov.get(key, 0) + n

    def tally(self, key, sub, n=1):
        d = self.cov.setdefault(key, {})
        d[sub] = d.get(sub, 0) + n

    def evaluation(self, case_key=None, nontrivial=True):
        self.cov['evaluations'] += 1
        if nontrivial and case_key is not None:
            h = hashlib.md5(json.dumps(case_key, sort_keys=True, default=str).encode()).hexdigest()
            self._distinct.add(h)

    def sample(self, obj, cap=5):
        if len(self.cov['samples']) < cap:
            self.cov['samples'].append(obj)

    # ------------------------------------------------------------ lean stage
    def lean_stage(self, module, extract=True, exe=False):
        """(1) regenerate Gen/ from /repo, (2) lake build the property's theorem file,
        (3) audit forbidden constructs and axioms.  Returns True when all three are fine.
        A failure is *not* a violation by itself: the caller goes on to search for a failing input."""
        from harness import leantool
        modules = module if isinstance(module, (list, tuple)) else [module]
        res = None
        for i, m in enumerate(modules):
            r = leantool.stage(m, extract=extract and i == 0, exe=exe and i == 0, thorough=(self.tier == 'thorough'))
            if res is None:
                res = r
            else:
                res['ok'] = res['ok'] and r['ok']
                res['module'] = res['module'] + ' ' + r['module']
                res['theorems'] = list(res['theorems']) + list(r['theorems'])
                res['axioms'].update(r['axioms'])
                for k in ('broken', 'extract_errors', 'audit', 'log_tail'):
                    res[k] = list(res.get(k) or []) + list(r.get(k) or [])
                if r.get('leanchecker'):
                    res.setdefault('leanchecker_more', []).append(r['leanchecker'])
        self.lean = res
        return res['ok']

    # ------------------------------------------------------------ violations
    def violation(self, kind, signature, detail, replay):
        self.violations.append(Violation(kind, signature, detail, replay))

    def _confirm_hangs(self, violations):
        """`request-did-not-terminate` is judged by a deadline (CPU seconds); before it is reported, the smallest replay
        of each such signature is run again in a process of its own with a deadline four times as long.  A request that
        really does not terminate is abandoned again; otherwise the signature is dropped and counted in the evidence
        (`deadline_not_reproduced`) - a deadline that fired once and not again is not a failing input."""
        hang = {}
        for v in violations:
            if v.kind == 'monitor' and v.signature.startswith('request-did-not-terminate'):
                hang.setdefault(v.signature, []).append(v)
        if not hang:
            return violations
        dropped = set()
        os.makedirs(REPLAYS, exist_ok=True)
        for sig, vs in sorted(hang.items()):
            v = min(vs, key=lambda x: len(json.dumps(x.replay, default=str)))
            path = os.path.join(REPLAYS, '.confirm_%s_%d.json' % (self.pid, os.getpid()))
            with open(path, 'w') as f:
                json.dump({'property': self.pid, 'kind': 'monitor', 'signature': sig, 'replay': v.replay}, f, default=str)
            env = dict(os.environ, VERIF_REQUEST_TIMEOUT=str(4 * float(os.environ.get('VERIF_REQUEST_TIMEOUT', '6'))))
            try:
                r = subprocess.run([sys.executable, '-m', 'harness.run', 'replay', path], cwd=ROOT, env=env,
                                   capture_output=True, text=True, timeout=600)
                reproduced = r.returncode == 1 or 'no automatic re-run' in r.stdout
            except subprocess.TimeoutExpired:
                reproduced = True
            finally:
                try:
                    os.unlink(path)
                except OSError:
                    pass
            if not reproduced:
                dropped.add(sig)
                self.count('deadline_not_reproduced', len(vs))
        return [v for v in violations if v.signature not in dropped]

    def finish(self):
        findings = load_findings().get('findings', [])
        known = {}
        for f in findings:
            if f.get('property') == self.pid and f.get('status') == 'finding':
                known[f['signature']] = f
        os.makedirs(EVID, exist_ok=True)
        os.makedirs(REPLAYS, exist_ok=True)
        new, seen_known = [], {}
        self.violations = self._confirm_hangs(self.violations)
        for v in self.violations:
            if v.kind == 'monitor' and v.signature in known:
                seen_known.setdefault(v.signature, v)
            else:
                new.append(v)
        lines = []
        for sig, v in sorted(seen_known.items()):
            lines.append('KNOWN-FINDING: property=%s %s [%s]' % (self.pid, known[sig]['what'], sig))
        # group new violations by signature, one replay file each (first = smallest)
        bysig = {}
        for v in new:
            bysig.setdefault((v.kind, v.signature), []).append(v)
        exit_code = 0
        lean_broken = self.lean['ok'] is False
        concrete = [k for k in bysig if k[0] == 'monitor']
        for (kind, sig), vs in sorted(bysig.items()):
            v = min(vs, key=lambda x: len(json.dumps(x.replay, default=str)))
            path = os.path.join(REPLAYS, '%s_%s_%s.json' % (self.pid, kind, re.sub(r'[^A-Za-z0-9_.-]+', '_', sig)[:80]))
            with open(path, 'w') as f:
                json.dump({'property': self.pid, 'kind': kind, 'signature': sig, 'seed': self.seed,
                           'tier': self.tier, 'detail': v.detail, 'replay': v.replay,
                           'occurrences': len(vs)}, f, indent=1, default=str)
            rel = os.path.relpath(path, ROOT)
            if kind == 'monitor':
                lines.append('VIOLATION property=%s replay=%s' % (self.pid, rel))
            elif not concrete:
                # correspondence broken but no failing input against the property found
                lines.append('VIOLATION property=%s replay=%s no-failing-input-found' % (self.pid, rel))
            exit_code = 1
        if lean_broken and not concrete:
            path = os.path.join(REPLAYS, '%s_proof.json' % self.pid)
            with open(path, 'w') as f:
                json.dump({'property': self.pid, 'kind': 'proof', 'seed': self.seed, 'tier': self.tier,
                           'broken': self.lean.get('broken'), 'extract_errors': self.lean.get('extract_errors'),
                           'audit': self.lean.get('audit'), 'log_tail': self.lean.get('log_tail'),
                           'changed_generated_definitions': self.lean.get('gen_diff'),
                           'note': 'the theorem(s)/translation named here no longer check against the current '
                                   'source; the search of the implementation found no input on which the '
                                   'property fails'}, f, indent=1, default=str)
            lines.append('VIOLATION property=%s replay=%s no-failing-input-found' % (self.pid, os.path.relpath(path, ROOT)))
            exit_code = 1
        # evidence
        self.cov['distinct_nontrivial'] = max(self.cov.get('distinct_nontrivial', 0), len(self._distinct))
        th = self.lean.get('theorems') or []
        self.cov['obligations'] = len(th)
        self.cov['discharged'] = 0 if lean_broken else len(th)
        self.cov['checker_cmd'] = 'cd lean && lake build %s   # + #print axioms audit, see harness/leantool.py' % (self.lean.get('module') or '')
        self.cov['trusted_base'] = TRUSTED_BASE
        self.cov['theorems'] = th
        self.cov['axioms_used'] = sorted(set(a for v in (self.lean.get('axioms') or {}).values() for a in v))
        self.cov['partial_theorems'] = [t for t in th if t.endswith('_partial')]
        self.cov['known_findings_seen'] = sorted(seen_known)
        if self.lean.get('leanchecker'):
            self.cov['leanchecker'] = self.lean['leanchecker']
        if self.notes:
            self.cov['notes'] = self.notes
        ev = {'property_id': self.pid, 'tier': self.tier, 'seed': self.seed, 'level': self.level,
              'coverage': self.cov, 'assumptions': self.assumptions,
              'wall_s': round(time.time() - self.t0, 2), 'violations': len(bysig) + (1 if lean_broken and not concrete and not bysig else 0)}
        with open(os.path.join(EVID, '%s.json' % self.pid), 'w') as f:
            json.dump(ev, f, indent=1, default=str)
        for l in lines:
            print(l)
        print('%s %s tier=%s seed=%s evaluations=%s distinct=%s theorems=%s wall=%.1fs' % (
            self.pid, 'FAIL' if exit_code else 'ok', self.tier, self.seed, self.cov['evaluations'],
            self.cov['distinct_nontrivial'], len(th), time.time() - self.t0))
        sys.stdout.flush()
        return exit_code
