"""Write corpus for the fault (C17) and crash (C18) checks: start states built through the API and,
for each, one request of every write kind (DESIGN appendix C), chosen deterministically from the
seed by the generators and kept when it exercises the intended path."""
import random

from harness import gen, ops

KINDS = ['rp_create', 'rp_update', 'rp_delete', 'inv_add', 'inv_update', 'inv_set', 'inv_delete', 'inv_delete_all',
         'trait_put', 'trait_delete', 'rp_traits_set', 'rp_traits_delete', 'aggs_set', 'rc_post', 'rc_put', 'rc_delete',
         'alloc_put', 'alloc_put', 'alloc_put', 'alloc_post', 'alloc_post', 'alloc_delete', 'reshape', 'reshape']


def build_state(app, rng, n_ops=10):
    """a scripted base (two trees, nested provider, inventories with room, traits, aggregates, consumers
    holding allocations on one and on two providers) followed by a random tail"""
    U, C = gen.RPS, gen.CONSUMERS
    R = rng.choice
    base = [
        {'op': 'rp_create', 'mv': 39, 'uuid': U[0], 'name': 'n-' + U[0][:8], 'parent': None},
        {'op': 'rp_create', 'mv': 39, 'uuid': U[1], 'name': 'n-' + U[1][:8], 'parent': U[0]},
        {'op': 'rp_create', 'mv': 39, 'uuid': U[2], 'name': 'n-' + U[2][:8], 'parent': None},
        {'op': 'trait_put', 'mv': 39, 'name': 'CUSTOM_T1'},
        {'op': 'rc_put', 'mv': 39, 'name': 'CUSTOM_RC1'},
        {'op': 'inv_set', 'mv': 39, 'uuid': U[0], 'gen': 0, 'invs': [
            ops.inv('VCPU', R([8, 16]), ratio=R([1.0, 1.5, 16.0])), ops.inv('MEMORY_MB', R([64, 1024]), reserved=R([0, 8]), step_size=R([1, 8]))]},
        {'op': 'inv_set', 'mv': 39, 'uuid': U[1], 'gen': 0, 'invs': [
            ops.inv('VCPU', 8, max_unit=R([4, 8])), ops.inv('CUSTOM_RC1', 4)]},
        {'op': 'inv_set', 'mv': 39, 'uuid': U[2], 'gen': 0, 'invs': [ops.inv('DISK_GB', 100, min_unit=R([1, 5]), ratio=R([1.0, 0.5]))]},
        {'op': 'rp_traits_set', 'mv': 39, 'uuid': U[0], 'gen': 1, 'traits': ['HW_CPU_X86_AVX', 'CUSTOM_T1']},
        {'op': 'aggs_set', 'mv': 39, 'uuid': U[0], 'gen': 2, 'aggs': [gen.AGGS[0]]},
        {'op': 'aggs_set', 'mv': 39, 'uuid': U[2], 'gen': 1, 'aggs': [gen.AGGS[0], gen.AGGS[1]]},
        {'op': 'alloc_put', 'mv': 39, 'c': {'uuid': C[0], 'project': 'proj1', 'user': 'user1', 'ctype': 'INSTANCE', 'gen': None,
                                            'allocs': [[U[0], 'VCPU', 2], [U[0], 'MEMORY_MB', 8]]}},
        {'op': 'alloc_put', 'mv': 39, 'c': {'uuid': C[1], 'project': 'proj1', 'user': 'user2', 'ctype': 'MIGRATION', 'gen': None,
                                            'allocs': [[U[0], 'VCPU', 1], [U[1], 'VCPU', 2], [U[2], 'DISK_GB', 10]]}},
    ]
    for op in base:
        r = ops.apply_real(app, op)
        assert r.status < 300, (op, r.status, r.json)
    g = gen.Gen(rng, weights={'rp_delete': 0, 'alloc_delete': 1, 'inv_delete_all': 0, 'rc_delete': 0, 'trait_delete': 0,
                              'rc_rename': 0}, n_rps=5, mv_mode='latest')
    for _ in range(n_ops):
        ops.apply_real(app, g.op(gen.View(app.dump())))
    return g


def requests_for(app, rng, g, want_success=0.75):
    """one request per kind; prefers requests that succeed from this state (tries a few candidates)"""
    snap = app.snapshot()
    out = []
    for kind in KINDS:
        best = None
        for _ in range(12):
            v = gen.View(app.dump())
            op = getattr(g, 'g_' + kind)(v)
            if kind == 'aggs_set':
                op['mv'] = rng.choice([39, 19, 18])
                op['gen'] = v.rps.get(op['uuid'], {}).get('gen', 0) if op['mv'] >= 19 else None
            r = ops.apply_real(app, op)
            app.restore(snap)
            if best is None:
                best = (op, r.status)
            if 200 <= r.status < 300:
                best = (op, r.status)
                break
            if rng.random() > want_success and r.status < 500:
                best = (op, r.status)
                break
        out.append(best)
    # scripted additions: the FIRST recording of an aggregate uuid (the INSERT that can lose a duplicate-key race and
    # is retried by _set_aggregates), on both sides of 1.19 (with / without the provider-generation compare-and-swap),
    # with another association kept and one dropped
    v = gen.View(app.dump())
    live = [u for u in gen.RPS if u in v.rps]
    for i, mv in enumerate((39, 19, 18, 1)):
        if not live:
            break
        u = live[i % len(live)]
        fresh = ['af%02d%04d-0000-0000-0000-000000000000' % (i, rng.randrange(10 ** 4)),
                 'ae%02d%04d-0000-0000-0000-000000000000' % (i, rng.randrange(10 ** 4))]
        op = {'op': 'aggs_set', 'mv': mv, 'uuid': u, 'gen': v.rps[u]['gen'] if mv >= 19 else None,
              'aggs': fresh[:1 + i % 2] + [gen.AGGS[0]]}
        r = ops.apply_real(app, op)
        app.restore(snap)
        out.append((op, r.status))
    # scripted additions: moves of a provider that HAS descendants (its row and the root pointers of the whole subtree
    # change together) - adoption of a root with children, re-parenting below another tree, un-parenting of a child
    U = gen.RPS
    if all(u in v.rps for u in U[:3]) and v.rps[U[1]]['parent'] == U[0]:
        moves = [{'op': 'rp_update', 'mv': 39, 'uuid': U[0], 'name': v.rps[U[0]]['name'], 'has_parent': True,
                  'parent': U[2] if v.rps[U[2]]['root'] != v.rps[U[0]]['root'] else None},
                 {'op': 'rp_update', 'mv': 14, 'uuid': U[0], 'name': v.rps[U[0]]['name'], 'has_parent': True,
                  'parent': U[2] if v.rps[U[0]]['parent'] is None and v.rps[U[2]]['root'] != v.rps[U[0]]['root'] else v.rps[U[0]]['parent']},
                 {'op': 'rp_update', 'mv': 39, 'uuid': U[1], 'name': v.rps[U[1]]['name'], 'has_parent': True, 'parent': None}]
        for op in moves:
            r = ops.apply_real(app, op)
            app.restore(snap)
            out.append((op, r.status))
    # scripted additions: an EXISTING consumer that holds allocations is handed to another project / user / consumer type
    # by each of the three allocation-writing routes while its allocations stay as they are (DESIGN appendix C,
    # "project/user/type change"); a crash or fault must not leave the attribute change without the rest of the write
    holders = [c for c in gen.CONSUMERS if v.by_consumer.get(c) and c in v.consumers]
    for i, kind in enumerate(('reshape', 'alloc_put', 'alloc_post')):
        if not holders:
            break
        c = holders[i % len(holders)]
        cur = v.consumers[c]
        allocs = [[rp, rc, used] for (rp, rc, used) in sorted(v.by_consumer[c])]
        creq = {'uuid': c, 'project': 'proj-moved', 'user': 'user-moved',
                'ctype': 'MIGRATION' if cur.get('ctype') != 'MIGRATION' else 'INSTANCE', 'gen': cur['gen'], 'allocs': allocs}
        if kind == 'reshape':
            rps = sorted({a[0] for a in allocs})
            invs = []
            for u in rps:
                lst = [ops.inv(k[1], i['total'], reserved=i['reserved'], min_unit=i['min_unit'], max_unit=i['max_unit'],
                               step_size=i['step_size'], ratio=i['ratio']) for k, i in sorted(v.invs.items()) if k[0] == u]
                invs.append({'uuid': u, 'gen': v.rps[u]['gen'], 'invs': lst})
            op = {'op': 'reshape', 'mv': 39, 'invs': invs, 'cs': [creq]}
        elif kind == 'alloc_put':
            op = {'op': 'alloc_put', 'mv': 39, 'c': creq}
        else:
            op = {'op': 'alloc_post', 'mv': 39, 'cs': [creq]}
        r = ops.apply_real(app, op)
        app.restore(snap)
        out.append((op, r.status))
    return out
