"""Process pool for the checks: `multiprocessing.Pool` waits for ever when a worker process dies with a task in hand
(the task is lost and `imap_unordered` never ends - seen once with a seeded change; the run sat idle until the watchdog).
This pool notices the death (concurrent.futures raises BrokenProcessPool), runs every unfinished item again in a process of
its own to find the one(s) that kill the interpreter, and hands those back as `{'error': ...}` results / raises for `map`,
so that the check ends at once with an infrastructure error naming the item."""
import concurrent.futures as cf
from concurrent.futures.process import BrokenProcessPool


class WorkerDied(RuntimeError):
    pass


class Pool:
    def __init__(self, ctx, procs, initializer=None, initargs=()):
        self.ctx, self.procs, self.initializer, self.initargs = ctx, procs, initializer, initargs
        self.ex = cf.ProcessPoolExecutor(max_workers=procs, mp_context=ctx, initializer=initializer, initargs=initargs)

    def __enter__(self):
        return self

    def __exit__(self, *a):
        self.ex.shutdown(wait=True, cancel_futures=True)
        return False

    def _alone(self, fn, item):
        ex = cf.ProcessPoolExecutor(max_workers=1, mp_context=self.ctx, initializer=self.initializer, initargs=self.initargs)
        try:
            return True, ex.submit(fn, item).result()
        except BrokenProcessPool:
            return False, None
        finally:
            ex.shutdown(wait=True, cancel_futures=True)

    def imap_unordered(self, fn, items, chunksize=1):
        items = list(items)
        futs = {self.ex.submit(fn, it): k for k, it in enumerate(items)}
        done = set()
        broken = False
        for f in cf.as_completed(futs):
            try:
                r = f.result()
            except BrokenProcessPool:
                broken = True
                break
            except BaseException as e:       # an exception the task function let through (sent back by the worker)
                r = {'error': 'worker raised %s: %s' % (type(e).__name__, e)}
            done.add(futs[f])
            yield r
        if broken:
            for k, it in enumerate(items):
                if k in done:
                    continue
                f = [x for x, kk in futs.items() if kk == k][0]
                if f.done() and not f.cancelled() and f.exception() is None:
                    yield f.result()
                    continue
                ok, r = self._alone(fn, it)
                if ok:
                    yield r
                else:
                    yield {'error': 'a worker process DIED (interpreter exit / signal) while running item %r of %s'
                                    % (it, getattr(fn, '__name__', fn))}

    def map(self, fn, items, chunksize=1):
        out = []
        for r in self.imap_ordered(fn, items):
            out.append(r)
        return out

    def imap_ordered(self, fn, items):
        items = list(items)
        futs = [self.ex.submit(fn, it) for it in items]
        for k, f in enumerate(futs):
            try:
                yield f.result()
            except BrokenProcessPool:
                ok, r = self._alone(fn, items[k])
                if not ok:
                    raise WorkerDied('a worker process DIED while running item %r of %s' % (items[k], getattr(fn, '__name__', fn)))
                yield r
