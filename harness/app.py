"""In-process placement application on SQLite, canonical table dumps, snapshots.

No hook in /repo is needed: the whole WSGI pipeline of placement.deploy is loaded
from the working tree (/venv has an editable install of /repo).
"""
import json
import os
import signal
import time
import sqlite3
import sys
import warnings

warnings.filterwarnings('ignore')
import logging
logging.disable(logging.CRITICAL)

from oslo_config import cfg
from oslo_policy import opts as policy_opts
import webob

from placement import conf as pconf, deploy, db_api, policy
from placement.db.sqlalchemy import migration
from placement.objects import trait, resource_class

ADMIN = 'admin'


# CPU seconds (user + system time of this process, ITIMER_PROF), not wall-clock seconds: a request that does not
# terminate burns CPU, and a deadline in wall-clock time fires spuriously when the machine is overloaded (seen with
# load 50 on 16 cores: requests abandoned at random, schedules no longer reproducible).  A request that SLEEPS forever
# is left to the watchdog of harness/run.py.
REQUEST_TIMEOUT_S = float(os.environ.get('VERIF_REQUEST_TIMEOUT', '6'))
_TIMER, _SIGNAL = signal.ITIMER_PROF, signal.SIGPROF
HANGS = [0]      # requests abandoned in this process; checks stop generating new cases once a few were seen


class RequestHang(BaseException):
    """raised by the alarm; a BaseException so that no `except Exception` of the service swallows it"""


_OWNERS = {}        # greenlet executing a request (several under the transaction scheduler) -> CPU seconds it has used
_LAST = [0.0]       # process CPU time at the last greenlet switch / request start

try:
    import greenlet as _greenlet
except ImportError:      # pragma: no cover
    _greenlet = None


def _current():
    return _greenlet.getcurrent() if _greenlet is not None else None


def _account(cur):
    now = time.process_time()
    if cur in _OWNERS:
        _OWNERS[cur] += now - _LAST[0]
    _LAST[0] = now


def _on_switch(event, args):
    # CPU time is charged to the request whose greenlet was running
    if event in ('switch', 'throw'):
        _account(args[0])


def _on_alarm(signum, frame):
    # raise only inside code that executes a request, and only when THAT request has used up its allowance (the
    # timer is shared by all requests in flight and CPU time is charged to the greenlet that ran); never in the
    # scheduler while all requests are suspended at a transaction boundary
    cur = _current()
    used = _OWNERS.get(cur)
    if used is not None and used + (time.process_time() - _LAST[0]) >= REQUEST_TIMEOUT_S:
        raise RequestHang()


def _arm(seconds):
    """start the deadline of one request.  The timer repeats: should the exception be swallowed by some
    `except BaseException` / `__del__` on its way out (it is raised at an arbitrary point), the next tick raises it
    again.  Under the transaction scheduler several requests are in flight in one process: the timer is shared, runs
    while any request is in flight and is stopped when none is left."""
    try:
        signal.signal(_SIGNAL, _on_alarm)
    except ValueError:          # not in the main thread: no deadline
        return
    cur = _current()
    _account(cur)
    _OWNERS[cur] = 0.0
    if _greenlet is not None and _greenlet.gettrace() is None:
        _greenlet.settrace(_on_switch)
    signal.setitimer(_TIMER, 0.5, 0.5)


def _disarm():
    _OWNERS.pop(_current(), None)          # first: from here on the handler does not raise for this request
    try:
        if not _OWNERS:
            signal.setitimer(_TIMER, 0)
    except ValueError:
        pass


class App(object):
    """One placement application + database per process (db_api is a module-level singleton)."""

    _instance = None

    def __init__(self, dburl='sqlite://', overrides=None, policy_file=None):
        if App._instance is not None:
            raise RuntimeError('one App per process')
        App._instance = self
        c = cfg.ConfigOpts()
        pconf.register_opts(c)
        policy_opts.set_defaults(c)
        try:
            c.register_opt(cfg.BoolOpt('enforce_scope', default=False), group='oslo_policy')
        except cfg.DuplicateOptError:
            pass
        c.set_override('auth_strategy', 'noauth2', group='api')
        c.set_override('connection', dburl, group='placement_database')
        # C12 quantifies over ANY configured placeholder project / user for consumers written below 1.8: run with two
        # DISTINCT values (the defaults are equal, which would hide a mix-up of the two options)
        c.set_override('incomplete_consumer_project_id', '99999999-0000-4000-8000-0000000000aa', group='placement')
        c.set_override('incomplete_consumer_user_id', '99999999-0000-4000-8000-0000000000bb', group='placement')
        for (group, key), val in (overrides or {}).items():
            c.set_override(key, val, group=group)
        if policy_file:
            c.set_override('policy_file', policy_file, group='oslo_policy')
        c([], default_config_files=[])
        self.conf = c
        self.dburl = dburl
        db_api.configure(c)
        self.engine = db_api.get_placement_engine()
        migration.create_schema(self.engine)
        if os.environ.get('VERIF_SQLITE_ROWID_REUSE') != '1':
            self._autoincrement()
        trait._TRAITS_SYNCED = False
        resource_class._RESOURCE_CLASSES_SYNCED = False
        policy.reset()
        self.app = deploy.loadapp(c)
        self._template = self.snapshot()

    def _autoincrement(self):
        """MySQL and PostgreSQL never hand out the id of a deleted row again; SQLite does (max(rowid) + 1) unless the
        key is declared AUTOINCREMENT, which SQLAlchemy's DDL for SQLite does not do.  Reused ids hide defects that act on
        a row id read earlier (and show others that no production database has), so the still empty tables are re-created
        with `id INTEGER PRIMARY KEY AUTOINCREMENT`; nothing else of the schema changes."""
        import re
        rc = self.engine.raw_connection()
        try:
            con = rc.driver_connection
            tables = con.execute("select name, sql from sqlite_master where type = 'table' and name not like 'sqlite_%'").fetchall()
            indexes = con.execute("select tbl_name, sql from sqlite_master where type = 'index' and sql is not null").fetchall()
            for name, sql in tables:
                if not re.search(r'\bid INTEGER NOT NULL', sql) or not re.search(r'PRIMARY KEY \(id\)', sql):
                    continue
                new = re.sub(r'\bid INTEGER NOT NULL', 'id INTEGER PRIMARY KEY AUTOINCREMENT NOT NULL', sql, count=1)
                new = re.sub(r',\s*PRIMARY KEY \(id\)', '', new, count=1)
                con.execute('DROP TABLE "%s"' % name)
                con.execute(new)
                for tbl, isql in indexes:
                    if tbl == name:
                        con.execute(isql)
            con.commit()
        finally:
            rc.close()

    # ------------------------------------------------------------------ db
    def raw(self):
        return self.engine.raw_connection()

    def snapshot(self):
        rc = self.engine.raw_connection()
        try:
            con = rc.driver_connection
            con.commit()
            return con.serialize()
        finally:
            rc.close()

    def restore(self, snap):
        rc = self.engine.raw_connection()
        try:
            con = rc.driver_connection
            try:
                con.rollback()
            except Exception:
                pass
            con.deserialize(snap)
        finally:
            rc.close()

    def reset(self):
        self.restore(self._template)

    def sql(self, q, args=()):
        rc = self.engine.raw_connection()
        try:
            con = rc.driver_connection
            cur = con.execute(q, args)
            rows = cur.fetchall()
            con.commit()
            return rows
        finally:
            rc.close()

    # ------------------------------------------------------------------ http
    def call(self, method, path, body=None, version='1.39', token=ADMIN, headers=None,
             raw_body=None, content_type='application/json', accept='application/json',
             roles='admin,service'):
        req = webob.Request.blank(path, method=method)
        if token:
            req.headers['x-auth-token'] = token
        if version:
            req.headers['openstack-api-version'] = 'placement %s' % version
        if accept:
            req.headers['accept'] = accept
        if roles is not None and token:
            req.headers['x-roles'] = roles
        if raw_body is not None:
            req.body = raw_body
            if content_type:
                req.content_type = content_type
        elif body is not None:
            req.body = json.dumps(body).encode()
            if content_type:
                req.content_type = content_type
        for k, v in (headers or {}).items():
            req.headers[k] = v
        # a request of a (possibly modified) service that does not terminate must not hang the check: after
        # REQUEST_TIMEOUT_S seconds it is abandoned and answered with the synthetic status 599, which every check reports
        _arm(REQUEST_TIMEOUT_S)
        try:
            try:
                resp = req.get_response(self.app)
            finally:
                _disarm()
        except RequestHang:
            HANGS[0] += 1
            return Resp(599, {'errors': [{'status': 599, 'title': 'request did not terminate',
                                          'detail': 'abandoned by the harness after %s s' % REQUEST_TIMEOUT_S}]}, {})
        try:
            j = json.loads(resp.body) if resp.body else None
        except Exception:
            j = resp.body.decode('latin-1')
        return Resp(resp.status_int, j, {k.lower(): v for k, v in resp.headers.items()})

    # ------------------------------------------------------------------ dump
    def dump(self):
        """Canonical, id-free dump of every table the properties speak about."""
        q = self.sql
        rps = {}
        idmap = {}
        rows = q('select id, uuid, name, generation, parent_provider_id, root_provider_id from resource_providers')
        for r in rows:
            idmap[r[0]] = r[1]
        for (i, u, n, g, p, ro) in rows:
            rps[u] = {'name': n, 'gen': g, 'parent': idmap.get(p, ('?%s' % p) if p is not None else None),
                      'root': idmap.get(ro, '?%s' % ro)}
        rcs = dict(q('select id, name from resource_classes'))
        from placement import context as pctx
        traits = dict(q('select id, name from traits'))
        aggs = dict(q('select id, uuid from placement_aggregates'))
        cons = {}
        cid = {}
        projs = dict(q('select id, external_id from projects'))
        users = dict(q('select id, external_id from users'))
        ctypes = dict(q('select id, name from consumer_types'))
        for (i, u, p, us, g, ct) in q('select id, uuid, project_id, user_id, generation, consumer_type_id from consumers'):
            cons[u] = {'project': projs.get(p, '?%s' % p), 'user': users.get(us, '?%s' % us), 'gen': g,
                       'ctype': ctypes.get(ct, '?%s' % ct) if ct is not None else None}
        invs = []
        for (rp, rc, t, r, mi, ma, st, ar) in q(
                'select resource_provider_id, resource_class_id, total, reserved, min_unit, max_unit, step_size, allocation_ratio from inventories'):
            invs.append([idmap.get(rp, '?%s' % rp), rcs.get(rc, '?%s' % rc), t, r, mi, ma, st, ar])
        allocs = []
        for (rp, c, rc, used) in q('select resource_provider_id, consumer_id, resource_class_id, used from allocations'):
            allocs.append([idmap.get(rp, '?%s' % rp), c, rcs.get(rc, '?%s' % rc), used])
        rpt = [[idmap.get(rp, '?%s' % rp), traits.get(t, '?%s' % t)] for (rp, t) in
               q('select resource_provider_id, trait_id from resource_provider_traits')]
        rpa = [[idmap.get(rp, '?%s' % rp), aggs.get(a, '?%s' % a)] for (rp, a) in
               q('select resource_provider_id, aggregate_id from resource_provider_aggregates')]
        return {
            'rps': rps,
            'invs': sorted(invs),
            'allocs': sorted(allocs),
            'consumers': cons,
            'rp_traits': sorted(rpt),
            'rp_aggs': sorted(rpa),
            'aggs': sorted(aggs.values()),
            'custom_rcs': sorted([n, i] for i, n in rcs.items() if i >= 10000 or n.startswith('CUSTOM_')),
            'n_std_rcs': sum(1 for i in rcs if i < 10000),
            'custom_traits': sorted(n for n in traits.values() if n.startswith('CUSTOM_')),
            'n_traits': len(traits),
            'projects': sorted(projs.values()),
            'users': sorted(users.values()),
            'ctypes': sorted(ctypes.values()),
        }


AUX_KEYS = ('projects', 'users', 'ctypes', 'aggs')


def core(dump):
    """The part of a dump a rejected request must leave untouched (C04): everything except
    newly recorded project / user / consumer-type names (and the uuid->id registry of aggregates,
    which has no API-visible meaning without an association)."""
    return {k: v for k, v in dump.items() if k not in AUX_KEYS}


class Resp(object):
    __slots__ = ('status', 'json', 'headers')

    def __init__(self, status, j, headers):
        self.status, self.json, self.headers = status, j, headers

    def __repr__(self):
        return 'Resp(%s, %s)' % (self.status, json.dumps(self.json)[:300] if not isinstance(self.json, str) else self.json[:300])


if __name__ == '__main__':
    import time
    t = time.time()
    a = App()
    print('start', time.time() - t)
    print(a.call('GET', '/'))
    u1 = '11111111-1111-1111-1111-111111111111'
    print(a.call('POST', '/resource_providers', {'name': 'rp1', 'uuid': u1}))
    print(a.call('PUT', '/resource_providers/%s/inventories' % u1,
                 {'resource_provider_generation': 0, 'inventories': {'VCPU': {'total': 8}}}))
    print(a.call('GET', '/allocation_candidates?resources=VCPU:1'))
    d = a.dump()
    print({k: v for k, v in d.items()})
    s = a.snapshot()
    t = time.time()
    for i in range(100):
        a.reset()
    print('reset', (time.time() - t) / 100)
    print(a.dump()['rps'])
    a.restore(s)
    print(a.dump()['rps'])
    t = time.time()
    for i in range(100):
        a.dump()
    print('dump', (time.time() - t) / 100)
