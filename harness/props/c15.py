"""C15  Arbitrary input yields well-formed client errors, never a server error.

Stage 1  Lean: translate (harness/extractors/schemas.py -> Gen/Schemas.lean, Gen/Errors.lean), build and audit
         Placement.Props.C15 (shape theorems per generated schema, error-body theorem, except-map theorems,
         custom-name theorems; witnesses for the holes the tree has).
Stage 2  cross-validation of the Lean validator (`Placement.validate`, the object of the shape theorems) against
         the real `jsonschema` exactly as placement calls it (`util.extract_json` for bodies,
         `jsonschema.validate(..., format_checker=FormatChecker())` for query strings): valid documents built
         type-directed from every schema of placement.schemas.*, grammar-based mutants of them, regexes and the
         uuid format checker on exotic strings.  Lean is RUN (lean/SchemaDriver.lean); a disagreement is a
         `correspondence` violation.
Stage 3  the malformed stream through the WHOLE real pipeline (harness.app.App, 16 forked workers): grammar-based
         mutation of valid requests to every route x method (declared and undeclared) in several states built
         through the API, including exotic legal topologies.  Monitors on every response:
           never an escaped exception, never a 5xx;
           every 4xx answered to a client that accepts JSON has `errors[0]` with status (= HTTP status), title,
           detail, request_id, and `code` exactly when the applied microversion is >= 1.23 (406/400 of the
           microversion middleware: no version -> no code; 406 carries min_version / max_version);
           400/404/405/406/415 leave every table unchanged (harness.app.core of App.dump());
         correspondence: the schema the translator says a handler uses at the request's microversion
         (Gen.Schemas.handlerSchemas) explains the answer: a body that parses and is accepted (2xx/409) validates
         against it, a "JSON does not validate" 400 means it does not.
"""
import base64
import json
import os
import re
import subprocess
import sys
import time
import traceback

from harness.common import LEAN
from harness import c15docs as D

META = {
    'property_id': 'C15',
    'lean_module': 'Placement.Props.C15',
    'category': 'proof',
    'text': 'For every JSON schema in the tree (translated on each run) a machine-checked theorem states what a '
            'validated document guarantees to the handler that reads it (or, where the schema has a hole, the hole is '
            'proved on a witness and the restricted statement is proved); the error formatter yields status, title, '
            'detail, request_id and code exactly from 1.23; every except clause answers 4xx and every domain exception '
            'of the object layer is caught; and a grammar-based malformed stream against the real application never '
            'produced a 5xx, an escaped exception, an ill-formed error body or a state change on 400/404/405/406/415 '
            '(apart from the listed findings).',
    'level_note': 'Theorems are about the Lean validator (Model/Schema.lean, Model/Regex.lean) applied to the generated '
                  'schema terms; its agreement with jsonschema 4.x + FormatChecker + re.search is cross-validated by '
                  'running both on generated and mutated documents, not proved.  bytes -> JSON, routing, webob, the '
                  'object layer and SQL are outside the theorems and covered only by the monitors on the real pipeline. '
                  'The table of domain exceptions raised per handler (Props/C15.lean domainRaises) is read off the '
                  'object layer by hand.  _partial: inventory / reshaper shapes (NaN ratio, unvalidated inventories '
                  'keys), custom names (trailing newline).',
    'technique': 'Lean 4 theorems over generated schemas/regexes/except-maps + differential run of the validator + '
                 'monitored malformed stream on the real app',
    'design_ref': '§5 C15',
}

# =============================================================================== stage 2: cross-validation


def _schemas():
    from harness.extractors import schemas as X
    import placement.util  # noqa: registers the uuid format checker exactly as the service does
    lst, ids = X.collect_schemas()
    return [('%s.%s' % (m, n), d) for (m, n, d) in lst]


def is_query_schema(name):
    return bool(re.search(r'\.(GET_|LIST_)', name))


def py_verdict(name, schema, data, body):
    """The verdict of the real code path."""
    import jsonschema
    import webob.exc
    from placement import util
    if body is not None:
        try:
            util.extract_json(body, schema)
            return True
        except webob.exc.HTTPBadRequest:
            return False
    try:
        jsonschema.validate(data, schema, format_checker=jsonschema.FormatChecker())
        return True
    except jsonschema.ValidationError:
        return False


def run_lean(lines, timeout=600):
    """Feed lines to lean/SchemaDriver.lean, return the list of answers ('1', '0', 'E ...')."""
    p = subprocess.run(['lake', 'env', 'lean', '--run', 'SchemaDriver.lean'], input='\n'.join(lines) + '\n',
                       capture_output=True, text=True, cwd=LEAN, timeout=timeout)
    out = [l for l in p.stdout.split('\n') if l != '']
    if p.returncode != 0 or len(out) != len(lines):
        raise RuntimeError('SchemaDriver failed (rc %s, %d answers for %d lines): %s' % (
            p.returncode, len(out), len(lines), (p.stderr or p.stdout)[-600:]))
    return out


def query_doc(schema, rng):
    """a dict of strings as `dict(req.GET)` is"""
    doc = D.gen_valid(schema, rng)
    return {k: (v if isinstance(v, str) else str(v)) for k, v in doc.items()}


def cross_cases(rng, per_schema):
    """[(name, schema, data, body or None, kind)]"""
    from oslo_serialization import jsonutils
    cases = []
    for name, schema in _schemas():
        for i in range(per_schema):
            try:
                base = query_doc(schema, rng) if is_query_schema(name) else D.gen_valid(schema, rng)
            except Exception as e:  # a schema the generator cannot serve is a bug of the harness
                raise RuntimeError('gen_valid failed for %s: %s' % (name, e))
            if i % 4 == 0:
                doc, kind = base, 'valid'
            else:
                doc, kind = D.mutate_doc(base, rng)
                if rng.random() < 0.25:
                    doc, k2 = D.mutate_doc(doc, rng)
                    kind = kind + '+' + k2
            if is_query_schema(name):
                if isinstance(doc, dict) and rng.random() < 0.7:
                    doc = {k: (v if isinstance(v, str) else json.dumps(v)) for k, v in doc.items()}
                cases.append((name, schema, doc, None, kind))
            elif name == 'trait.CUSTOM_TRAIT' or name == 'trait.TRAIT':
                cases.append((name, schema, doc, None, kind))
            else:
                body = D.dumps(doc)
                try:
                    data = jsonutils.loads(body)
                except ValueError:
                    continue
                cases.append((name, schema, data, body, kind))
    return cases


def cross_validate(chk, per_schema):
    rng = chk.rng
    cases = cross_cases(rng, per_schema)
    lines, kept = [], []
    for (name, schema, data, body, kind) in cases:
        try:
            enc = D.encode(data)
        except D.Unencodable:
            chk.tally('xval_skipped', 'unencodable')
            continue
        lines.append(json.dumps({'s': name, 'd': enc}))
        kept.append((name, schema, data, body, kind))
    # regexes and the uuid checker on exotic strings
    import placement.schemas.common as common
    from oslo_utils import uuidutils
    extra = []
    pats = sorted(n for n in vars(common) if n.isupper() and not n.startswith('_') and isinstance(vars(common)[n], str))
    pool = D.STRINGS + D.UUIDS
    for n in pats:
        pat = vars(common)[n]
        strs = list(pool)
        for _ in range(60):
            s = D.sample_regex(pat, rng, exotic=True)
            strs += [s, s + '\n', s + '\n\n', 'x' + s, s + 'x', s.lower(), '\n' + s, s[:-1], s + s]
        for s in strs:
            lines.append(json.dumps({'re': n, 't': [ord(c) for c in s]}))
            extra.append(('re', n, s, re.search(pat, s) is not None))
    for s in pool + [u.upper() for u in D.UUIDS] + [u.replace('-', '') for u in D.UUIDS]:
        lines.append(json.dumps({'uuid': [ord(c) for c in s]}))
        extra.append(('uuid', 'is_uuid_like', s, bool(uuidutils.is_uuid_like(s))))
    answers = run_lean(lines)
    nvalid = 0
    for (name, schema, data, body, kind), ans in zip(kept, answers):
        py = py_verdict(name, schema, data, body)
        chk.evaluation(('xval', name, json.dumps(data, sort_keys=True, default=str)[:400]))
        chk.tally('xval_by_schema', name)
        chk.tally('xval_by_kind', kind.split('+')[0])
        chk.tally('xval_verdict', 'valid' if py else 'invalid')
        nvalid += 1 if py else 0
        lean = {'1': True, '0': False}.get(ans)
        if lean is None or lean != py:
            chk.violation('correspondence', 'validator-model:%s' % name,
                          'Lean validate says %s, jsonschema (as placement calls it) says %s' % (ans, py),
                          {'type': 'request', 'module': 'harness.props.c15', 'what': 'xval', 'schema': name,
                           'document': D.dumps(data), 'mutation': kind, 'lean': ans, 'python': py})
    for (what, n, s, py), ans in zip(extra, answers[len(kept):]):
        chk.evaluation(('xval', what, n, s))
        chk.tally('xval_by_kind', what)
        lean = {'1': True, '0': False}.get(ans)
        if lean is None or lean != py:
            chk.violation('correspondence', 'validator-model:%s:%s' % (what, n),
                          'Lean says %s, Python says %s on %r' % (ans, py, s),
                          {'type': 'request', 'module': 'harness.props.c15', 'what': 'xval-' + what, 'name': n,
                           'string': s, 'lean': ans, 'python': py})
    chk.cov['xval_documents'] = len(kept)
    chk.cov['xval_strings'] = len(extra)
    if kept:
        chk.sample({'stage': 'cross-validation', 'schema': kept[0][0], 'document': D.dumps(kept[0][2]),
                    'mutation': kept[0][4], 'lean': answers[0], 'python': py_verdict(*kept[0][:4])})
    return len(kept) + len(extra)
