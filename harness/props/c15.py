"""C15  Arbitrary input yields well-formed client errors, never a server error.

Stage 1  Lean: translate (harness/extractors/schemas.py -> Gen/Schemas.lean, Gen/Errors.lean), build and audit
         Placement.Props.C15 (shape theorems per generated schema, error-body theorem, except-map theorems,
         custom-name theorems; witnesses for the holes the tree has).
Stage 2  cross-validation of the Lean validator (`Placement.validate`, the object of the shape theorems) against
         the real `jsonschema` exactly as placement calls it (`util.extract_json` for bodies,
         `jsonschema.validate(..., format_checker=FormatChecker())` for query strings): valid documents built
         type-directed from every schema of placement.schemas.*, grammar-based mutants of them, regexes and the
         uuid format checker on exotic strings.  Lean is RUN (lean/SchemaDriver.lean); a disagreement is a
         `correspondence` violation.
Stage 3  the malformed stream through the WHOLE real pipeline (harness.app.App, 16 forked workers): grammar-based
         mutation of valid requests to every route x method (declared and undeclared) in several states built
         through the API, including exotic legal topologies.  Monitors on every response:
           never an escaped exception, never a 5xx;
           every 4xx answered to a client that accepts JSON has `errors[0]` with status (= HTTP status), title,
           detail, request_id, and `code` exactly when the applied microversion is >= 1.23 (406/400 of the
           microversion middleware: no version -> no code; 406 carries min_version / max_version);
           400/404/405/406/415 leave every table unchanged (harness.app.core of App.dump());
         correspondence: the schema the translator says a handler uses at the request's microversion
         (Gen.Schemas.handlerSchemas) explains the answer: a body that parses and is accepted (2xx/409) validates
         against it, a "JSON does not validate" 400 means it does not.
"""
from harness import ppool
import base64
import json
import os
import re
import subprocess
import sys
import time
import traceback

from harness.common import LEAN
from harness import c15docs as D

META = {
    'property_id': 'C15',
    'lean_module': 'Placement.Props.C15',
    'category': 'proof',
    'text': 'For every JSON schema in the tree (translated on each run) a machine-checked theorem states what a '
            'validated document guarantees to the handler that reads it (or, where the schema has a hole, the hole is '
            'proved on a witness and the restricted statement is proved); the error formatter yields status, title, '
            'detail, request_id and code exactly from 1.23; every except clause answers 4xx and every domain exception '
            'of the object layer is caught; and a grammar-based malformed stream against the real application never '
            'produced a 5xx, an escaped exception, an ill-formed error body or a state change on 400/404/405/406/415 '
            '(apart from the listed findings); valid requests racing at transaction granularity (records created on first use) never '
            'answered 5xx either.',
    'level_note': 'Theorems are about the Lean validator (Model/Schema.lean, Model/Regex.lean) applied to the generated '
                  'schema terms; its agreement with jsonschema 4.x + FormatChecker + re.search is cross-validated by '
                  'running both on generated and mutated documents, not proved.  bytes -> JSON, routing, webob, the '
                  'object layer and SQL are outside the theorems and covered only by the monitors on the real pipeline. '
                  'The table of domain exceptions raised per handler (Props/C15.lean domainRaises) is read off the '
                  'object layer by hand.  _partial: inventory / reshaper shapes (NaN ratio, unvalidated inventories '
                  'keys), custom names (trailing newline).',
    'technique': 'Lean 4 theorems over generated schemas/regexes/except-maps + differential run of the validator + '
                 'monitored malformed stream on the real app',
    'design_ref': '§5 C15',
}

# =============================================================================== stage 2: cross-validation


def _schemas():
    from harness.extractors import schemas as X
    import placement.util  # noqa: registers the uuid format checker exactly as the service does
    lst, ids = X.collect_schemas()
    return [('%s.%s' % (m, n), d) for (m, n, d) in lst]


def is_query_schema(name):
    return bool(re.search(r'\.(GET_|LIST_)', name))


def py_verdict(name, schema, data, body):
    """The verdict of the real code path."""
    import jsonschema
    import webob.exc
    from placement import util
    if body is not None:
        try:
            util.extract_json(body, schema)
            return True
        except webob.exc.HTTPBadRequest:
            return False
    try:
        jsonschema.validate(data, schema, format_checker=jsonschema.FormatChecker())
        return True
    except jsonschema.ValidationError:
        return False


def run_lean(lines, timeout=600):
    """Feed lines to lean/SchemaDriver.lean, return the list of answers ('1', '0', 'E ...')."""
    p = subprocess.run(['lake', 'env', 'lean', '--run', 'SchemaDriver.lean'], input='\n'.join(lines) + '\n',
                       capture_output=True, text=True, cwd=LEAN, timeout=timeout)
    out = [l for l in p.stdout.split('\n') if l != '']
    if p.returncode != 0 or len(out) != len(lines):
        raise RuntimeError('SchemaDriver failed (rc %s, %d answers for %d lines): %s' % (
            p.returncode, len(out), len(lines), (p.stderr or p.stdout)[-600:]))
    return out


def query_doc(schema, rng):
    """a dict of strings as `dict(req.GET)` is"""
    doc = D.gen_valid(schema, rng)
    return {k: (v if isinstance(v, str) else str(v)) for k, v in doc.items()}


def cross_cases(rng, per_schema):
    """[(name, schema, data, body or None, kind)]"""
    from oslo_serialization import jsonutils
    cases = []
    for name, schema in _schemas():
        for i in range(per_schema):
            try:
                base = query_doc(schema, rng) if is_query_schema(name) else D.gen_valid(schema, rng)
            except Exception as e:  # a schema the generator cannot serve is a bug of the harness
                raise RuntimeError('gen_valid failed for %s: %s' % (name, e))
            if i % 4 == 0:
                doc, kind = base, 'valid'
            else:
                doc, kind = D.mutate_doc(base, rng)
                if rng.random() < 0.25:
                    doc, k2 = D.mutate_doc(doc, rng)
                    kind = kind + '+' + k2
            if is_query_schema(name):
                if isinstance(doc, dict) and rng.random() < 0.7:
                    doc = {k: (v if isinstance(v, str) else json.dumps(v)) for k, v in doc.items()}
                cases.append((name, schema, doc, None, kind))
            elif name == 'trait.CUSTOM_TRAIT' or name == 'trait.TRAIT':
                cases.append((name, schema, doc, None, kind))
            else:
                body = D.dumps(doc)
                try:
                    data = jsonutils.loads(body)
                except ValueError:
                    continue
                cases.append((name, schema, data, body, kind))
    return cases


def cross_validate(chk, per_schema):
    rng = chk.rng
    cases = cross_cases(rng, per_schema)
    lines, kept = [], []
    for (name, schema, data, body, kind) in cases:
        try:
            enc = D.encode(data)
        except D.Unencodable:
            chk.tally('xval_skipped', 'unencodable')
            continue
        line = json.dumps({'s': name, 'd': enc})
        if len(line) > 60000:      # the model's matcher is quadratic in the worst case; very long strings only go
            chk.tally('xval_skipped', 'too-long')   # through the real pipeline (stage 3)
            continue
        lines.append(line)
        kept.append((name, schema, data, body, kind))
    # regexes and the uuid checker on exotic strings
    import placement.schemas.common as common
    from oslo_utils import uuidutils
    extra = []
    pats = sorted(n for n in vars(common) if n.isupper() and not n.startswith('_') and isinstance(vars(common)[n], str))
    pool = D.STRINGS + D.UUIDS
    for n in pats:
        pat = vars(common)[n]
        strs = list(pool)
        for _ in range(60):
            s = D.sample_regex(pat, rng, exotic=True)
            strs += [s, s + '\n', s + '\n\n', 'x' + s, s + 'x', s.lower(), '\n' + s, s[:-1], s + s]
        for s in strs:
            lines.append(json.dumps({'re': n, 't': [ord(c) for c in s]}))
            extra.append(('re', n, s, re.search(pat, s) is not None))
    for s in pool + [u.upper() for u in D.UUIDS] + [u.replace('-', '') for u in D.UUIDS]:
        lines.append(json.dumps({'uuid': [ord(c) for c in s]}))
        extra.append(('uuid', 'is_uuid_like', s, bool(uuidutils.is_uuid_like(s))))
    answers = run_lean(lines)
    nvalid = 0
    for (name, schema, data, body, kind), ans in zip(kept, answers):
        py = py_verdict(name, schema, data, body)
        chk.evaluation(('xval', name, json.dumps(data, sort_keys=True, default=str)[:400]))
        chk.tally('xval_by_schema', name)
        chk.tally('xval_by_kind', kind.split('+')[0])
        chk.tally('xval_verdict', 'valid' if py else 'invalid')
        nvalid += 1 if py else 0
        lean = {'1': True, '0': False}.get(ans)
        if lean is None or lean != py:
            chk.violation('correspondence', 'validator-model:%s' % name,
                          'Lean validate says %s, jsonschema (as placement calls it) says %s' % (ans, py),
                          {'type': 'request', 'module': 'harness.props.c15', 'what': 'xval', 'schema': name,
                           'document': D.dumps(data), 'mutation': kind, 'lean': ans, 'python': py})
    for (what, n, s, py), ans in zip(extra, answers[len(kept):]):
        chk.evaluation(('xval', what, n, s))
        chk.tally('xval_by_kind', what)
        lean = {'1': True, '0': False}.get(ans)
        if lean is None or lean != py:
            chk.violation('correspondence', 'validator-model:%s:%s' % (what, n),
                          'Lean says %s, Python says %s on %r' % (ans, py, s),
                          {'type': 'request', 'module': 'harness.props.c15', 'what': 'xval-' + what, 'name': n,
                           'string': s, 'lean': ans, 'python': py})
    chk.cov['xval_documents'] = len(kept)
    chk.cov['xval_strings'] = len(extra)
    if kept:
        chk.sample({'stage': 'cross-validation', 'schema': kept[0][0], 'document': D.dumps(kept[0][2]),
                    'mutation': kept[0][4], 'lean': answers[0], 'python': py_verdict(*kept[0][:4])})
    return len(kept) + len(extra)


# =============================================================================== stage 3: states

_uuid_n = [0]


def _u(prefix, i):
    return '%s%07d-0000-0000-0000-000000000000' % (prefix, i)


RP = [_u('0', i) for i in range(1, 10)]
CONS = [_u('c', i) for i in range(1, 6)]
AGG = [_u('a', i) for i in range(1, 4)]
UNKNOWN_UUID = '99999999-9999-9999-9999-999999999999'
SHARE = 'MISC_SHARES_VIA_AGGREGATE'


def _inv(total, **kw):
    d = {'total': total}
    d.update(kw)
    return d


def _alloc38(consumer_gen, allocs, ctype='INSTANCE', project='p1', user='u1'):
    return {'allocations': {rp: {'resources': res} for rp, res in allocs.items()}, 'project_id': project,
            'user_id': user, 'consumer_generation': consumer_gen, 'consumer_type': ctype}


# Each state is a list of API calls (method, path, body, version); every call must succeed (2xx).
STATES = {
    'empty': [],
    'basic': [
        ('POST', '/resource_classes', {'name': 'CUSTOM_RC1'}, '1.39'),
        ('PUT', '/traits/CUSTOM_T1', None, '1.39'),
        ('PUT', '/traits/CUSTOM_T2', None, '1.39'),
        ('POST', '/resource_providers', {'name': 'rp1', 'uuid': RP[0]}, '1.39'),
        ('POST', '/resource_providers', {'name': 'rp2', 'uuid': RP[1]}, '1.39'),
        ('PUT', '/resource_providers/%s/inventories' % RP[0], {'resource_provider_generation': 0, 'inventories': {
            'VCPU': _inv(8, allocation_ratio=2.0), 'MEMORY_MB': _inv(4096, reserved=512, step_size=64),
            'DISK_GB': _inv(100, max_unit=50), 'CUSTOM_RC1': _inv(4)}}, '1.39'),
        ('PUT', '/resource_providers/%s/inventories' % RP[1], {'resource_provider_generation': 0, 'inventories': {
            'VCPU': _inv(4)}}, '1.39'),
        ('PUT', '/resource_providers/%s/traits' % RP[0], {'resource_provider_generation': 1,
                                                        'traits': ['CUSTOM_T1', 'HW_CPU_X86_AVX']}, '1.39'),
        ('PUT', '/resource_providers/%s/aggregates' % RP[0], {'resource_provider_generation': 2,
                                                            'aggregates': [AGG[0], AGG[1]]}, '1.39'),
        ('PUT', '/allocations/%s' % CONS[0], _alloc38(None, {RP[0]: {'VCPU': 2, 'MEMORY_MB': 128, 'CUSTOM_RC1': 1}}), '1.39'),
        ('PUT', '/allocations/%s' % CONS[1], _alloc38(None, {RP[0]: {'VCPU': 1}, RP[1]: {'VCPU': 1}}, 'MIGRATION', 'p2', 'u2'), '1.39'),
    ],
    # nested tree with a sharing provider inside another tree, a sharing provider without aggregate,
    # reserved = total, allocation_ratio 0.0 and a tiny ratio
    'exotic': [
        ('PUT', '/traits/CUSTOM_T1', None, '1.39'),
        ('POST', '/resource_classes', {'name': 'CUSTOM_RC1'}, '1.39'),
        ('POST', '/resource_providers', {'name': 'root', 'uuid': RP[0]}, '1.39'),
        ('POST', '/resource_providers', {'name': 'child', 'uuid': RP[1], 'parent_provider_uuid': RP[0]}, '1.39'),
        ('POST', '/resource_providers', {'name': 'grandchild', 'uuid': RP[2], 'parent_provider_uuid': RP[1]}, '1.39'),
        ('POST', '/resource_providers', {'name': 'root2', 'uuid': RP[3]}, '1.39'),
        ('POST', '/resource_providers', {'name': 'nested-sharing', 'uuid': RP[4], 'parent_provider_uuid': RP[3]}, '1.39'),
        ('POST', '/resource_providers', {'name': 'lonely-sharing', 'uuid': RP[5]}, '1.39'),
        ('POST', '/resource_providers', {'name': 'zero', 'uuid': RP[6]}, '1.39'),
        ('PUT', '/resource_providers/%s/inventories' % RP[0], {'resource_provider_generation': 0, 'inventories': {
            'VCPU': _inv(16, allocation_ratio=16.0), 'MEMORY_MB': _inv(2048, reserved=2048)}}, '1.39'),
        ('PUT', '/resource_providers/%s/inventories' % RP[1], {'resource_provider_generation': 0, 'inventories': {
            'SRIOV_NET_VF': _inv(8, min_unit=2, max_unit=4, step_size=2)}}, '1.39'),
        ('PUT', '/resource_providers/%s/inventories' % RP[2], {'resource_provider_generation': 0, 'inventories': {
            'CUSTOM_RC1': _inv(2147483647, allocation_ratio=0.001)}}, '1.39'),
        ('PUT', '/resource_providers/%s/inventories' % RP[4], {'resource_provider_generation': 0, 'inventories': {
            'DISK_GB': _inv(1000, reserved=100)}}, '1.39'),
        ('PUT', '/resource_providers/%s/inventories' % RP[5], {'resource_provider_generation': 0, 'inventories': {
            'DISK_GB': _inv(500)}}, '1.39'),
        ('PUT', '/resource_providers/%s/inventories' % RP[6], {'resource_provider_generation': 0, 'inventories': {
            'VCPU': _inv(4, allocation_ratio=0.0)}}, '1.39'),
        ('PUT', '/resource_providers/%s/traits' % RP[4], {'resource_provider_generation': 1, 'traits': [SHARE]}, '1.39'),
        ('PUT', '/resource_providers/%s/traits' % RP[5], {'resource_provider_generation': 1, 'traits': [SHARE, 'CUSTOM_T1']}, '1.39'),
        ('PUT', '/resource_providers/%s/aggregates' % RP[4], {'resource_provider_generation': 2, 'aggregates': [AGG[0]]}, '1.39'),
        ('PUT', '/resource_providers/%s/aggregates' % RP[0], {'resource_provider_generation': 1, 'aggregates': [AGG[0]]}, '1.39'),
        ('PUT', '/allocations/%s' % CONS[0], _alloc38(None, {RP[0]: {'VCPU': 4}, RP[1]: {'SRIOV_NET_VF': 2},
                                                          RP[4]: {'DISK_GB': 10}}), '1.39'),
        ('PUT', '/allocations/%s' % CONS[1], _alloc38(None, {RP[2]: {'CUSTOM_RC1': 1}}), '1.39'),
    ],
    # trees that got their shape through MOVES: a root with descendants given its first parent below 1.37, a root attached
    # deep below another tree, a subtree moved inside its tree at 1.37 (every descendant must follow its root)
    'moved': [
        ('POST', '/resource_providers', {'name': 'm-root', 'uuid': RP[0]}, '1.39'),
        ('POST', '/resource_providers', {'name': 'm-child', 'uuid': RP[1], 'parent_provider_uuid': RP[0]}, '1.39'),
        ('POST', '/resource_providers', {'name': 'm-grand', 'uuid': RP[2], 'parent_provider_uuid': RP[1]}, '1.39'),
        ('POST', '/resource_providers', {'name': 'm-other', 'uuid': RP[3]}, '1.39'),
        ('POST', '/resource_providers', {'name': 'm-third', 'uuid': RP[4]}, '1.39'),
        ('PUT', '/resource_providers/%s/inventories' % RP[0], {'resource_provider_generation': 0, 'inventories': {'VCPU': _inv(8)}}, '1.39'),
        ('PUT', '/resource_providers/%s/inventories' % RP[1], {'resource_provider_generation': 0, 'inventories': {
            'SRIOV_NET_VF': _inv(4)}}, '1.39'),
        ('PUT', '/resource_providers/%s/inventories' % RP[2], {'resource_provider_generation': 0, 'inventories': {'DISK_GB': _inv(100)}}, '1.39'),
        ('PUT', '/resource_providers/%s/inventories' % RP[3], {'resource_provider_generation': 0, 'inventories': {
            'MEMORY_MB': _inv(1024)}}, '1.39'),
        ('PUT', '/resource_providers/%s/inventories' % RP[4], {'resource_provider_generation': 0, 'inventories': {'VCPU': _inv(4)}}, '1.39'),
        ('PUT', '/resource_providers/%s' % RP[4], {'name': 'm-third', 'parent_provider_uuid': RP[2]}, '1.20'),
        ('PUT', '/resource_providers/%s' % RP[2], {'name': 'm-grand', 'parent_provider_uuid': RP[0]}, '1.37'),
        # LAST (nothing after it may repair what it leaves): a root with three descendants gets its first parent below 1.37
        ('PUT', '/resource_providers/%s' % RP[0], {'name': 'm-root', 'parent_provider_uuid': RP[3]}, '1.14'),
        ('PUT', '/allocations/%s' % CONS[0], _alloc38(None, {RP[0]: {'VCPU': 2}, RP[2]: {'DISK_GB': 10}, RP[4]: {'VCPU': 1}}), '1.39'),
    ],
    # everything allocated to the brim
    'full': [
        ('POST', '/resource_providers', {'name': 'full', 'uuid': RP[0]}, '1.39'),
        ('PUT', '/resource_providers/%s/inventories' % RP[0], {'resource_provider_generation': 0, 'inventories': {
            'VCPU': _inv(2), 'MEMORY_MB': _inv(64, min_unit=64, max_unit=64, step_size=64)}}, '1.39'),
        ('PUT', '/allocations/%s' % CONS[0], _alloc38(None, {RP[0]: {'VCPU': 2, 'MEMORY_MB': 64}}), '1.39'),
        ('PUT', '/traits/CUSTOM_FULL', None, '1.39'),
    ],
}


def build_state(app, name):
    app.reset()
    _uuid_n[0] = 0
    for (m, p, b, v) in STATES[name]:
        r = app.call(m, p, b, version=v)
        if r.status >= 300:
            raise RuntimeError('state %s: %s %s -> %s %s' % (name, m, p, r.status, r.json))
    return app.snapshot()


class View(object):
    """what the request generator reads off the current tables"""

    def __init__(self, dump):
        self.rps = sorted(dump['rps'])
        self.gen = {u: r['gen'] for u, r in dump['rps'].items()}
        self.parent = {u: r['parent'] for u, r in dump['rps'].items()}
        self.invs = {}
        for row in dump['invs']:
            self.invs.setdefault(row[0], []).append(row[1])
        self.consumers = dict((c, v['gen']) for c, v in dump['consumers'].items())
        self.custom_rcs = [n for n, _ in dump['custom_rcs']]
        self.custom_traits = list(dump['custom_traits'])
        self.aggs = list(dump['aggs'])


# =============================================================================== stage 3: request grammar

ALL_METHODS = ['GET', 'POST', 'PUT', 'DELETE', 'PATCH', 'HEAD', 'OPTIONS', 'FOO']
STD_RCS = ['VCPU', 'MEMORY_MB', 'DISK_GB', 'SRIOV_NET_VF', 'PCI_DEVICE']
STD_TRAITS = ['HW_CPU_X86_AVX', 'HW_CPU_X86_SSE', SHARE, 'STORAGE_DISK_SSD']


def routes():
    from placement import handler
    return {r: sorted(ms) for r, ms in handler.ROUTE_DECLARATIONS.items()}


_MAP = None


def schema_map():
    """{handler: [(kind, lo, hi, schema name, schema dict)]} from the translator (the same rows as Gen.Schemas.handlerSchemas)"""
    global _MAP
    if _MAP is None:
        from harness.extractors import schemas as X
        lst, ids = X.collect_schemas()
        byname = {'%s.%s' % (m, n): d for (m, n, d) in lst}
        rows, _, _ = X.handler_schema_map(ids)
        rh = {(r, m): '%s.%s' % (mn, fn) for (r, m, mn, fn) in X.route_handlers()}
        out = {}
        for (h, kind, lo, hi, sn) in rows:
            out.setdefault(h, []).append((kind, lo, hi, sn, byname[sn]))
        _MAP = (out, rh)
    return _MAP


def schema_for(route, method, kind, version):
    out, rh = schema_map()
    h = rh.get((route, method))
    for (k, lo, hi, sn, d) in out.get(h, []):
        if k == kind and lo <= version <= hi:
            return sn, d
    return None, None


class StateHints(D.Hints):
    """make type-directed documents refer to the current state"""

    def __init__(self, view, route, method, path_uuid, rng):
        self.v, self.route, self.method, self.path_uuid = view, route, method, path_uuid
        self.n = rng.randint(0, 10 ** 6)

    def _rp(self, rng):
        return rng.choice(self.v.rps) if self.v.rps and rng.random() < 0.9 else rng.choice([UNKNOWN_UUID, RP[8]])

    def key(self, path, pattern, rng):
        if '0-9a-fA-F' in pattern:      # uuid-keyed objects
            if self.route == '/allocations' and len(path) == 0:
                return rng.choice(CONS)
            if self.route == '/reshaper' and path == ('allocations',):
                return rng.choice(CONS)
            return self._rp(rng)
        if pattern == '^[A-Z0-9_]+$':
            pool = STD_RCS[:3] + self.v.custom_rcs
            if self.path_uuid in self.v.invs and rng.random() < 0.7:
                pool = self.v.invs[self.path_uuid]
            for p in path:
                if p in self.v.invs and rng.random() < 0.8:
                    pool = self.v.invs[p]
            return rng.choice(pool)
        return None

    def integer(self, path, schema, rng):
        last = path[-1] if path else None
        if last == 'resource_provider_generation':
            u = self.path_uuid
            for p in path:
                if p in self.v.gen:
                    u = p
            g = self.v.gen.get(u, 0)
            return g if rng.random() < 0.85 else g + rng.choice([1, -1, 7])
        if last == 'generation':
            u = path[-2] if len(path) > 1 else None
            return self.v.gen.get(u, 0)
        if last == 'consumer_generation':
            return None
        if last == 'total':
            return rng.choice([1, 4, 8, 100, 2147483647])
        if last in ('reserved',):
            return rng.choice([0, 0, 1, 4])
        if last in ('min_unit', 'step_size'):
            return rng.choice([1, 1, 2])
        if last == 'max_unit':
            return rng.choice([1, 4, 2147483647])
        if len(path) >= 2 and path[-2] == 'resources':
            return rng.choice([1, 1, 2, 64])
        return None

    def value(self, path, schema, rng):
        last = path[-1] if path else None
        if last == 'consumer_generation':
            c = None
            for p in path:
                if p in self.v.consumers:
                    c = p
            if c is None and self.route == '/allocations/{consumer_uuid}':
                c = self.path_uuid
            g = self.v.consumers.get(c)
            return (True, g if rng.random() < 0.85 else rng.choice([None, 0, 5]))
        if last == 'traits':
            pool = STD_TRAITS + self.v.custom_traits
            return (True, rng.sample(pool, rng.randint(0, min(3, len(pool)))))
        if last == 'aggregates' or (self.route.endswith('/aggregates') and path == ()):
            return (True, rng.sample(AGG, rng.randint(0, 3)))
        if last == 'parent_provider_uuid':
            return (True, rng.choice([None] + self.v.rps[:3]))
        if last == 'allocation_ratio':
            return (True, rng.choice([1.0, 0.5, 16.0, 0.0, 2]))
        return None

    def string(self, path, schema, rng):
        last = path[-1] if path else None
        if last == 'name':
            if self.route.startswith('/resource_classes'):
                return rng.choice(['CUSTOM_NEW%d' % self.n, 'CUSTOM_RC1', 'CUSTOM_RC2'])
            return rng.choice(['new-rp-%d' % self.n, 'rp1', 'root'])
        if last == 'uuid' and path[:-1] and path[-2] == 'resource_provider':
            return self._rp(rng)
        if last == 'uuid':
            return rng.choice([RP[7], RP[8], self._rp(rng)])
        if last == 'resource_class':
            return rng.choice(STD_RCS + self.v.custom_rcs)
        if last in ('project_id', 'user_id'):
            return rng.choice(['p1', 'p2', 'u1'])
        if last == 'consumer_type':
            return rng.choice(['INSTANCE', 'MIGRATION', 'NEWTYPE'])
        return None


def query_value(key, view, rng):
    rp = rng.choice(view.rps) if view.rps else UNKNOWN_UUID
    base = re.sub(r'(_?[A-Za-z0-9_-]*)$', '', key) if False else key
    if key.startswith('resources'):
        return rng.choice(['VCPU:1', 'VCPU:1,MEMORY_MB:64', 'DISK_GB:10', 'VCPU:1,DISK_GB:5', 'CUSTOM_RC1:1', 'SRIOV_NET_VF:2'])
    if key.startswith('required') or key == 'root_required':
        return rng.choice(['HW_CPU_X86_AVX', '!HW_CPU_X86_AVX', 'CUSTOM_T1', 'in:HW_CPU_X86_AVX,CUSTOM_T1', 'CUSTOM_T1,!' + SHARE])
    if key.startswith('member_of'):
        return rng.choice([AGG[0], 'in:%s,%s' % (AGG[0], AGG[1]), '!' + AGG[0], '!in:%s' % AGG[1]])
    if key.startswith('in_tree') or key == 'uuid':
        return rp
    if key == 'limit':
        return rng.choice(['1', '5', '1000'])
    if key == 'group_policy':
        return rng.choice(['none', 'isolate'])
    if key == 'same_subtree':
        return rng.choice(['_1,_2', '_A', ',_1'])
    if key == 'name':
        return rng.choice(['rp1', 'root', 'in:CUSTOM_T1,HW_CPU_X86_AVX', 'startswith:CUSTOM'])
    if key == 'associated':
        return rng.choice(['true', 'false', '1'])
    if key in ('project_id', 'user_id'):
        return rng.choice(['p1', 'p2', 'u1'])
    if key == 'consumer_type':
        return rng.choice(['INSTANCE', 'all', 'unknown', 'MIGRATION'])
    return 'x'


def valid_query(route, method, version, view, rng):
    sn, schema = schema_for(route, method, 'query', version)
    if schema is None:
        return []
    keys = []
    props = schema.get('properties', {})
    for k in props:
        if k in schema.get('required', []) or rng.random() < 0.3:
            keys.append(k)
    for pat in schema.get('patternProperties', {}):
        if rng.random() < 0.45:
            keys.append(D.sample_regex(pat, rng))
    if route == '/allocation_candidates' and not any(k.startswith('resources') for k in keys):
        keys.append('resources')
    return [(k, query_value(k, view, rng)) for k in keys]


def path_for(route, view, rng):
    """-> (path, the uuid put into {uuid}/{consumer_uuid} if any)"""
    pu = None
    path = route

    def sub(m):
        nonlocal pu
        name = m.group(1)
        if name == 'uuid':
            pu = rng.choice(view.rps) if view.rps and rng.random() < 0.9 else UNKNOWN_UUID
            return pu
        if name == 'consumer_uuid':
            pu = rng.choice(list(view.consumers) + CONS[:3])
            return pu
        if name == 'resource_class':
            pool = STD_RCS + view.custom_rcs
            if pu in view.invs and rng.random() < 0.7:
                pool = view.invs[pu]
            return rng.choice(pool)
        if name == 'name':
            if route.startswith('/traits'):
                return rng.choice(STD_TRAITS + view.custom_traits + ['CUSTOM_NEWT'])
            return rng.choice(STD_RCS + view.custom_rcs + ['CUSTOM_NEWRC'])
        return 'x'
    path = re.sub(r'\{(\w+)\}', sub, route)
    return path, pu


def valid_request(route, method, version, view, rng):
    """a request that is valid (or nearly: it may conflict with the state) for (route, method) at `version`"""
    path, pu = path_for(route, view, rng)
    req = {'method': method, 'path': path, 'query': valid_query(route, method, version, view, rng),
           'headers': {'x-auth-token': 'admin', 'x-roles': 'admin,service', 'accept': 'application/json',
                       'openstack-api-version': 'placement %d.%d' % version},
           'body': None, 'doc': None, 'schema': None}
    sn, schema = schema_for(route, method, 'body', version)
    if schema is not None:
        doc = D.gen_valid(schema, rng, StateHints(view, route, method, pu, rng))
        req['doc'] = doc
        req['schema'] = sn
        req['body'] = D.dumps(doc).encode()
        req['headers']['content-type'] = 'application/json'
    elif method in ('POST', 'PUT') and rng.random() < 0.5:
        # a body where the translator found no schema (undeclared method, version outside the window, bodiless PUT)
        req['body'] = b'{}'
        req['headers']['content-type'] = 'application/json'
    return req


# =============================================================================== stage 3: malformations

CTYPES_BAD = [None, 'text/plain', 'application/xml', 'application/json; charset=utf-8', 'application/JSON', 'json',
              'application/x-www-form-urlencoded', 'multipart/form-data; boundary=x', '', 'a/b/c', '\xe9',
              'application/json;', 'application/json, text/plain']
ACCEPT_JSONISH = ['application/json', 'application/json;q=0.9, text/plain;q=0.1', 'application/json, */*;q=0.1']
ACCEPT_OTHER = [None, 'text/html', 'text/plain', 'application/xml', '*/*', 'application/*', 'garbage', ';;;', 'a/b;q=x',
                'application/json;q=0', 'text/*;q=0.5, application/octet-stream', '\xe9/\xe9', 'application/json;version=1.0']
VERSIONS_BAD = ['placement 9.9', 'placement 1.40', 'placement 0.9', 'placement 1', 'placement 1.x', 'placement -1.0',
                'placement 1.0.0', 'placement', '', 'compute 1.1', 'placement latest', 'placement LATEST',
                'placement 1.39, compute 2.1', 'compute 2.1, placement 1.10', 'placement 1.10, placement 1.20',
                'placement 1.1e1', 'placement 1.99999999999999999999', 'placement \xe9', 'placement  1.10', ' placement 1.10 ',
                'PLACEMENT 1.10', 'placement 1.039', 'placement +1.2', 'placement 1.-1', 'placement 1. 2', 'placement\t1.2',
                None]
QUERY_BAD_VALUES = ['', ' ', 'VCPU', 'VCPU:', ':1', 'VCPU:0', 'VCPU:-1', 'VCPU:abc', 'VCPU:1.5', 'VCPU:99999999999999999999',
                    'VCPU:1,VCPU:2', 'vcpu:1', 'NOPE:1', 'VCPU:1,', ',', 'VCPU:1;DISK_GB:1', 'VCPU:1:2', 'VCPU:١',
                    '!', 'in:', 'in:,', '!in:', 'in:!X', 'CUSTOM_NOPE', '!!HW_CPU_X86_AVX', 'HW_CPU_X86_AVX,,', ',,',
                    'not-a-uuid', UNKNOWN_UUID, UNKNOWN_UUID + ',', 'in:not-a-uuid', '0', '-1', '1.5', '1e3', 'abc',
                    '99999999999999999999', '2147483648', 'x' * 300, '\x00', 'é', '\U0001f4a5', '%', '%zz', '_', '_1,_1', '_nope',
                    'none,isolate', 'ISOLATE', 'true', 'yes', 'startswith:', 'startswith', 'in', 'foo:bar', 'all', 'allx',
                    'unknown', 'null', 'CUSTOM_X\n', ' VCPU:1', 'VCPU: 1', "' OR 1=1 --", '"']
EXTRA_QUERY_KEYS = ['foo', 'resources', 'resources1', 'resources_A', 'required', 'required1', 'member_of', 'member_of1',
                    'in_tree', 'in_tree1', 'limit', 'group_policy', 'root_required', 'same_subtree', 'name', 'uuid',
                    'associated', 'project_id', 'user_id', 'consumer_type', 'resources' + 'a' * 65, 'resources-', 'resourcesé',
                    'resources 1', '', 'RESOURCES', 'required_', 'resources1.0', 'resources01']
PATH_SEGMENTS_BAD = ['not-a-uuid', UNKNOWN_UUID, UNKNOWN_UUID.upper(), '11111111111111111111111111111111',
                     '{%s}' % UNKNOWN_UUID, 'CUSTOM_T%0A', 'CUSTOM_X%0A', 'VCPU%0A', 'CUSTOM_%C3%89', '%C3%A9', '%00', '%FF',
                     'A' * 256, 'CUSTOM_' + 'A' * 249, 'CUSTOM_' + 'A' * 248, 'x' * 5000, '..', '.', '%2F', '%2e%2e', ' ',
                     '%20', 'custom_lower', 'CUSTOM_', 'CUSTOM', 'vcpu', 'VCPU;x=1', 'a%3Fb', "'", '%27', '*',
                     '-1', '0', 'null', 'CUSTOM_A.B', 'CUSTOM_A-B', '%E0%A4%A', '%ED%A0%80', '+']
EXTRA_HEADERS = [('x-roles', 'admin'), ('x-roles', ''), ('x-user-id', 'x'), ('openstack-system-scope', 'all'),
                 ('x-forwarded-proto', 'https'), ('forwarded', 'for=1;proto=x'), ('x-forwarded-host', '\xe9'),
                 ('x-openstack-request-id', 'req-xyz'), ('x-openstack-request-id', 'x' * 500), ('content-encoding', 'gzip'),
                 ('transfer-encoding', 'chunked'), ('expect', '100-continue'), ('if-match', '*'), ('range', 'bytes=0-1'),
                 ('cookie', 'a=b'), ('origin', 'http://evil'), ('host', ''), ('x-http-method-override', 'DELETE'),
                 ('if-modified-since', 'garbage'), ('accept-language', 'xx'), ('accept-charset', 'x'),
                 ('x-service-token', 'x'), ('x-project-id', 'x'), ('x-domain-id', '\x00')]


def quote(s):
    import urllib.parse
    return urllib.parse.quote(s, safe='')


def encode_query(pairs):
    out = []
    for k, v in pairs:
        if isinstance(v, bytes):          # raw, already percent-encoded
            out.append('%s=%s' % (quote(k), v.decode('latin-1')))
        else:
            out.append('%s=%s' % (quote(k), quote(v)))
    return '&'.join(out)


def byte_kinds(req, rng):
    """malformations of the body bytes"""
    body = req['body'] if req['body'] is not None else b'{"a": 1}'
    choice = rng.choice(['bytes:truncated', 'bytes:garbage', 'bytes:invalid-utf8', 'bytes:empty', 'bytes:nan-literal',
                         'bytes:dup-keys', 'bytes:deep-nesting', 'bytes:bom', 'bytes:huge-number', 'bytes:surrogate',
                         'bytes:trailing', 'bytes:utf16', 'bytes:control-chars', 'bytes:single-quotes', 'bytes:comment',
                         'bytes:huge-body', 'bytes:null-byte', 'bytes:big-exponent'])
    if choice == 'bytes:truncated':
        b = body[:rng.randint(0, max(0, len(body) - 1))]
    elif choice == 'bytes:garbage':
        b = bytes(rng.getrandbits(8) for _ in range(rng.randint(1, 40)))
    elif choice == 'bytes:invalid-utf8':
        i = rng.randint(0, len(body))
        b = body[:i] + rng.choice([b'\xff', b'\xc3', b'\xed\xa0\x80', b'\xf8\x88\x80\x80\x80']) + body[i:]
    elif choice == 'bytes:empty':
        b = rng.choice([b'', b' ', b'\n'])
    elif choice == 'bytes:nan-literal':
        b = rng.choice([b'NaN', b'Infinity', b'-Infinity', b'[NaN]', b'{"a": NaN}', body.replace(b'1', b'NaN', 1),
                        body.replace(b'1', b'-Infinity', 1), body.replace(b'0', b'Infinity', 1)])
    elif choice == 'bytes:dup-keys':
        b = body.replace(b'{', b'{"total": 0, ', 1) if rng.random() < 0.5 else (
            body[:-1] + b', ' + body[1:] if body.startswith(b'{') and len(body) > 2 else b'{"a":1,"a":2}')
    elif choice == 'bytes:deep-nesting':
        n = rng.choice([100, 900, 1100, 5000, 100000])
        b = rng.choice([b'[' * n + b']' * n, b'{"a":' * n + b'1' + b'}' * n, b'[' * n])
    elif choice == 'bytes:bom':
        b = b'\xef\xbb\xbf' + body
    elif choice == 'bytes:huge-number':
        b = body.replace(b'1', b'1' + b'0' * rng.choice([30, 400, 5000]), 1)
    elif choice == 'bytes:big-exponent':
        b = body.replace(b'1', rng.choice([b'1e400', b'-1e400', b'1e-400', b'1E+309', b'0e999999999', b'1.0e308']), 1)
    elif choice == 'bytes:surrogate':
        b = body.replace(b'"', b'"\\ud800', 1) if b'"' in body else b'"\\ud800"'
    elif choice == 'bytes:trailing':
        b = body + rng.choice([b'x', b'{}', b',', b'\x00', b' null'])
    elif choice == 'bytes:utf16':
        b = body.decode('utf-8', 'replace').encode(rng.choice(['utf-16', 'utf-16-le', 'utf-32']))
    elif choice == 'bytes:control-chars':
        b = body.replace(b'"', b'"\x01\n', 1) if b'"' in body else b'"\x01"'
    elif choice == 'bytes:single-quotes':
        b = body.replace(b'"', b"'")
    elif choice == 'bytes:comment':
        b = b'/* c */' + body
    elif choice == 'bytes:huge-body':
        b = b'{"name": "' + b'A' * rng.choice([10 ** 5, 10 ** 6]) + b'"}'
    else:
        b = body.replace(b'"', b'"\\u0000', 1) if b'"' in body else b'"\\u0000"'
    req['body'] = b
    req['doc'] = None
    req['headers'].setdefault('content-type', 'application/json')
    return choice


def malform(req, route, method, view, rng):
    """apply one malformation in place; returns its kind"""
    group = rng.choices(['body', 'bytes', 'ctype', 'accept', 'version', 'query', 'path', 'header', 'token', 'clen', 'semantic'],
                        [30, 10, 5, 5, 8, 16, 10, 4, 1, 1, 4])[0]
    h = req['headers']
    if group == 'body':
        if req['doc'] is None:
            doc = rng.choice([{}, {'name': 'x'}, [], {'allocations': {}}])
        else:
            doc = req['doc']
        doc, kind = D.mutate_doc(doc, rng)
        req['doc'] = doc
        req['body'] = D.dumps(doc).encode()
        h.setdefault('content-type', 'application/json')
        return kind
    if group == 'bytes':
        return byte_kinds(req, rng)
    if group == 'ctype':
        v = rng.choice(CTYPES_BAD)
        if v is None:
            h.pop('content-type', None)
            if req['body'] is None:
                req['body'] = b'{}'
            return 'ctype:missing'
        h['content-type'] = v
        if req['body'] is None and rng.random() < 0.7:
            req['body'] = b'{}'
        return 'ctype:wrong'
    if group == 'accept':
        v = rng.choice(ACCEPT_OTHER + ACCEPT_JSONISH[1:])
        if v is None:
            h.pop('accept', None)
            return 'accept:missing'
        h['accept'] = v
        return 'accept:jsonish' if v in ACCEPT_JSONISH else 'accept:other'
    if group == 'version':
        v = rng.choice(VERSIONS_BAD)
        if v is None:
            h.pop('openstack-api-version', None)
            return 'version:missing'
        h['openstack-api-version'] = v
        if rng.random() < 0.2:
            h['x-openstack-placement-api-version'] = rng.choice(['1.10', 'x', '9.9'])
            return 'version:legacy-header'
        return 'version:garbage'
    if group == 'query':
        q = req['query']
        k = rng.choice(['query:repeat', 'query:unknown', 'query:bad-value', 'query:conflict', 'query:invalid-utf8',
                        'query:long', 'query:empty-value', 'query:on-write'])
        if k == 'query:repeat' and q:
            key, val = rng.choice(q)
            newv = rng.choice([val, query_value(key, view, rng), rng.choice(QUERY_BAD_VALUES), rng.choice(QUERY_BAD_VALUES)])
            if rng.random() < 0.5:
                q.append((key, newv))
            else:
                # the repeated value FIRST, the valid one last: validators that look at the last value (dict(req.GET))
                # and readers that take the first one (getall(...)[0]) then disagree
                q.insert([i for i, kv in enumerate(q) if kv[0] == key][0], (key, newv))
        elif k == 'query:unknown':
            q.append((rng.choice(EXTRA_QUERY_KEYS), rng.choice(QUERY_BAD_VALUES + ['VCPU:1', AGG[0]])))
        elif k == 'query:bad-value' and q:
            i = rng.randrange(len(q))
            q[i] = (q[i][0], rng.choice(QUERY_BAD_VALUES))
        elif k == 'query:conflict':
            q += rng.sample([('resources', 'VCPU:1'), ('resources1', 'VCPU:1'), ('resources_A', 'DISK_GB:1'),
                             ('group_policy', 'isolate'), ('required1', 'CUSTOM_T1'), ('required', '!CUSTOM_T1'),
                             ('required', 'CUSTOM_T1'), ('member_of', AGG[0]), ('member_of', '!' + AGG[0]),
                             ('in_tree', RP[0]), ('in_tree1', RP[3]), ('same_subtree', '_A,1'), ('limit', '0'),
                             ('root_required', '!CUSTOM_T1,CUSTOM_T1'), ('required_A', 'in:CUSTOM_T1'),
                             ('name', 'rp1'), ('uuid', RP[1]), ('required', 'HW_CPU_X86_AVX,!HW_CPU_X86_AVX')], rng.randint(2, 5))
        elif k == 'query:invalid-utf8':
            q.append((rng.choice(['name', 'resources', 'required', 'foo', 'project_id', 'member_of', 'in_tree']),
                      rng.choice([b'%ff', b'%C3', b'%ED%A0%80', b'%00', b'%E9', b'a%', b'%u00e9', b'%0A'])))
        elif k == 'query:long':
            q.append((rng.choice(['name', 'required', 'resources', 'member_of']), 'A' * rng.choice([300, 5000, 70000])))
        elif k == 'query:empty-value' and q:
            i = rng.randrange(len(q))
            q[i] = (q[i][0], '')
        else:
            q.append((rng.choice(EXTRA_QUERY_KEYS), rng.choice(QUERY_BAD_VALUES)))
            k = 'query:on-write' if method != 'GET' else 'query:unknown'
        return k
    if group == 'path':
        segs = req['path'].split('/')
        k = rng.choice(['path:bad-segment', 'path:bad-segment', 'path:trailing-slash', 'path:double-slash',
                        'path:unknown-route', 'path:extra-segment', 'path:case', 'path:prefix'])
        idx = [i for i, sg in enumerate(segs) if sg and i >= 2]
        if k == 'path:bad-segment' and idx:
            segs[rng.choice(idx)] = rng.choice(PATH_SEGMENTS_BAD)
            req['path'] = '/'.join(segs)
        elif k == 'path:trailing-slash':
            req['path'] += '/'
        elif k == 'path:double-slash':
            req['path'] = req['path'].replace('/', '//', 1)
        elif k == 'path:unknown-route':
            req['path'] = rng.choice(['/nope', '/resource_provider', '/resource_providers/%s/nope' % RP[0], '/v1/resource_providers',
                                      '/allocations/%s/extra' % CONS[0], '/traits/', '//', '/%00', '/reshaper/x', '/usages/x',
                                      '/allocation_candidates/1', '/resource_classes/VCPU/x', '/' + 'a' * 3000, '/\xe9', '/%C3%A9'])
        elif k == 'path:extra-segment':
            req['path'] += '/' + rng.choice(PATH_SEGMENTS_BAD)
        elif k == 'path:case':
            req['path'] = req['path'].upper() if rng.random() < 0.5 else req['path'].title()
        else:
            req['path'] = rng.choice(['/placement', '/placement/', '']) + req['path'] if rng.random() < 0.7 else req['path'].lstrip('/')
        return k
    if group == 'header':
        k, v = rng.choice(EXTRA_HEADERS)
        h[k] = v
        return 'header:extra:' + k
    if group == 'token':
        v = rng.choice([None, '', 'user:project', 'admin:', ':', 'x' * 5000, '\xe9'])
        if v is None:
            h.pop('x-auth-token', None)
            return 'token:missing'
        h['x-auth-token'] = v
        return 'token:other'
    if group == 'clen':
        h['content-length'] = rng.choice(['abc', '-1', '', '0', '99999', '1.5', ' 5', '5 ', '+5', '0x10'])
        if rng.random() < 0.5:
            h.pop('content-type', None)
        return 'clen:garbage'
    # semantic: a valid shape that conflicts with the state
    if req['doc'] is not None and isinstance(req['doc'], dict):
        doc = req['doc']
        k = 'sem:none'
        if isinstance(doc.get('resource_provider_generation'), int):
            doc['resource_provider_generation'] = rng.choice([doc['resource_provider_generation'] + 1, 0, 99, 2 ** 63, 2 ** 64])
            k = 'sem:stale-generation'
        elif 'consumer_generation' in doc:
            doc['consumer_generation'] = rng.choice([0, 7, None, 2 ** 63])
            k = 'sem:stale-consumer-generation'
        elif 'name' in doc:
            doc['name'] = rng.choice(['rp1', 'root', 'VCPU', 'CUSTOM_RC1', 'rp2'])
            k = 'sem:duplicate-name'
        req['body'] = D.dumps(doc).encode()
        return k
    return 'sem:none'


def gen_request(view, rng, route_table):
    """-> (req, route template, kinds, version tuple)"""
    route = rng.choice(sorted(route_table))
    declared = route_table[route]
    if rng.random() < 0.88:
        method = rng.choice(declared)
    else:
        method = rng.choice([m for m in ALL_METHODS if m not in declared])
    r = rng.random()
    version = (1, 39) if r < 0.35 else (1, rng.randint(0, 39))
    req = valid_request(route, method, version, view, rng)
    kinds = []
    if method not in declared:
        kinds.append('method:undeclared')
    n = rng.choices([0, 1, 2, 3], [12, 62, 20, 6])[0]
    for _ in range(n):
        kinds.append(malform(req, route, method, view, rng))
    if not kinds:
        kinds = ['none']
    if any(k.startswith('path:') for k in kinds):
        route = match_route(req['path'])
    return req, route, kinds, version


# =============================================================================== stage 3: sending and monitors

REJECTED = (400, 404, 405, 406, 415)
_captured = []


class _CaptureLog(object):
    """stands in for fault_wrap.LOG: remembers the exception FaultWrapper turned into a 500"""

    def exception(self, msg, *args, **kw):
        et, ev, tb = sys.exc_info()
        site = ''
        for fs in reversed(traceback.extract_tb(tb)):
            fn = fs.filename.replace('\\', '/')
            if '/placement/' in fn and '/site-packages/' not in fn:
                site = '%s:%s' % (fn.split('/placement/', 1)[1], fs.name)
                break
        if not site and tb is not None:
            fs = traceback.extract_tb(tb)[-1]
            site = '%s:%s' % (os.path.basename(fs.filename), fs.name)
        _captured.append((et.__name__ if et else '?', site, str(ev)[:300]))

    def __getattr__(self, name):
        return lambda *a, **k: None


def install_capture():
    """in-process patches of the harness (nothing in /repo changes): remember the exception behind a 500; make
    server-generated uuids a deterministic sequence (restarted with every state restore) so that replays
    reproduce the state"""
    from placement import fault_wrap
    from oslo_utils import uuidutils
    fault_wrap.LOG = _CaptureLog()

    def generate_uuid(dashed=True):
        _uuid_n[0] += 1
        u = 'd%07x-0000-4000-8000-%012x' % (_uuid_n[0], _uuid_n[0])
        return u if dashed else u.replace('-', '')
    uuidutils.generate_uuid = generate_uuid


def restore_state(app, snap):
    app.restore(snap)
    _uuid_n[0] = 0


def path_qs(req):
    qs = encode_query(req['query']) if req['query'] else ''
    return req['path'] + ('?' + qs if qs else '')


def send(app, req):
    """-> (status, headers(lower-case), body bytes).  Raises whatever escapes the WSGI application.
    The WSGI environ is filled the way a server does: PATH_INFO is the percent-decoded path as latin-1
    (raw non-ASCII characters stand for their UTF-8 bytes), QUERY_STRING is passed through undecoded."""
    import urllib.parse
    import webob
    r = webob.Request.blank('/', method=req['method'])
    raw = req['path'].encode('utf-8', 'surrogatepass')
    r.environ['PATH_INFO'] = urllib.parse.unquote_to_bytes(raw).decode('latin-1')
    r.environ['QUERY_STRING'] = encode_query(req['query']) if req['query'] else ''
    if req['body'] is not None:
        r.body = req['body']
    hs = req['headers']
    for k, v in hs.items():
        if k == 'content-length':
            continue
        v = v.encode('utf-8').decode('latin-1')
        if k == 'content-type':
            r.environ['CONTENT_TYPE'] = v
        else:
            r.environ['HTTP_' + k.upper().replace('-', '_')] = v
    if 'content-type' not in hs:
        r.environ.pop('CONTENT_TYPE', None)
    if 'content-length' in hs:
        r.environ['CONTENT_LENGTH'] = hs['content-length']
    resp = r.get_response(app.app)
    return resp.status_int, {k.lower(): v for k, v in resp.headers.items()}, resp.body


def applied_version(headers):
    v = headers.get('openstack-api-version')
    if not v:
        return None
    m = re.match(r'^placement (\d+)\.(\d+)$', v)
    return (int(m.group(1)), int(m.group(2))) if m else None


def check_error_body(status, headers, body):
    """problems of a 4xx body sent to a client that accepts JSON ([] = well-formed)"""
    out = []
    ct = headers.get('content-type', '')
    if not ct.startswith('application/json'):
        return ['content-type %r' % ct]
    try:
        j = json.loads(body)
    except Exception:
        return ['body is not JSON']
    if not (isinstance(j, dict) and isinstance(j.get('errors'), list) and j['errors'] and isinstance(j['errors'][0], dict)):
        return ['no errors[0] object']
    e = j['errors'][0]
    if e.get('status') != status or isinstance(e.get('status'), bool):
        out.append('status %r != %d' % (e.get('status'), status))
    for k in ('title', 'detail', 'request_id'):
        if not isinstance(e.get(k), str) or (k != 'detail' and not e.get(k)):
            out.append('%s missing' % k)
    av = applied_version(headers)
    want_code = av is not None and av >= (1, 23)
    if want_code and not (isinstance(e.get('code'), str) and e['code'].startswith('placement.')):
        out.append('code missing at %s' % (av,))
    if not want_code and 'code' in e:
        out.append('code present at %s' % (av,))
    if status == 406 and av is None:
        if not (e.get('min_version') == '1.0' and isinstance(e.get('max_version'), str)):
            out.append('min_version/max_version missing on 406')
    return out


def _body_rec(body):
    if body is None:
        return None
    try:
        return {'text': body.decode('utf-8')} if len(body) < 4000 else {'base64': base64.b64encode(body).decode()}
    except UnicodeDecodeError:
        return {'base64': base64.b64encode(body).decode()}


def req_rec(req):
    return {'method': req['method'], 'path_qs': path_qs(req), 'headers': dict(req['headers']), 'body': _body_rec(req['body'])}


_history = []


def replay_obj(state, req, route, kinds, observed, expected):
    """state_build (API calls that build the start state) + history (the state-changing requests of the stream
    since the state was last restored) + the request"""
    rec = req_rec(req)
    return {'type': 'request', 'module': 'harness.props.c15', 'what': 'stream', 'state': state,
            'state_build': [list(x) for x in STATES[state]], 'history': list(_history), 'route': route,
            'method': rec['method'], 'path_qs': rec['path_qs'], 'headers': rec['headers'], 'body': rec['body'],
            'malformations': kinds, 'expected': expected, 'observed': observed}


def norm_msg(s):
    s = re.sub(r'[0-9a-fA-F]{8}-[0-9a-fA-F]{4}-[0-9a-fA-F]{4}-[0-9a-fA-F]{4}-[0-9a-fA-F]{12}', 'UUID', s)
    s = re.sub(r'\d+', 'N', s)
    return s[:80]


def _deep(n):
    return b'[' * n + b']' * n


_NAN_INV = b'{"resource_provider_generation": @GEN@, "total": 4, "allocation_ratio": NaN}'
_NINF_INV = b'{"resource_provider_generation": @GEN@, "total": 4, "allocation_ratio": -Infinity}'

# `@GEN@` in a body stands for the current generation of provider RP[1].
# (state, method, path?query, version, body, "route template|label"): requests of the listed findings (DESIGN §9 E, F, J
# and those this check found) and regression probes; run first by worker 0 through the same monitors.
CORPUS = [
    ('basic', 'PUT', '/resource_providers/%s/inventories/VCPU' % RP[1], '1.39', _NAN_INV,
     '/resource_providers/{uuid}/inventories/{resource_class}|E-nan-ratio'),
    ('basic', 'PUT', '/resource_providers/%s/inventories/VCPU' % RP[1], '1.39', _NINF_INV,
     '/resource_providers/{uuid}/inventories/{resource_class}|E-neginf-ratio'),
    ('basic', 'POST', '/resource_providers/%s/inventories' % RP[1], '1.39',
     b'{"resource_class": "DISK_GB", "total": 4, "allocation_ratio": NaN}', '/resource_providers/{uuid}/inventories|E-nan-ratio'),
    ('basic', 'POST', '/resource_providers/%s/inventories' % RP[1], '1.39',
     b'{"resource_class": "DISK_GB", "total": 4, "allocation_ratio": -1e400}', '/resource_providers/{uuid}/inventories|E-neginf-ratio'),
    ('basic', 'PUT', '/resource_providers/%s/inventories' % RP[1], '1.39',
     b'{"resource_provider_generation": @GEN@, "inventories": {"DISK_GB": {"total": 4, "allocation_ratio": NaN}}}',
     '/resource_providers/{uuid}/inventories|E-nan-ratio'),
    ('basic', 'PUT', '/resource_providers/%s/inventories' % RP[1], '1.39',
     b'{"resource_provider_generation": @GEN@, "inventories": {"DISK_GB": {"total": 4, "allocation_ratio": -Infinity}}}',
     '/resource_providers/{uuid}/inventories|E-neginf-ratio'),
    ('basic', 'PUT', '/resource_providers/%s/inventories' % RP[1], '1.39',
     b'{"resource_provider_generation": @GEN@, "inventories": {"vcpu": 5}}', '/resource_providers/{uuid}/inventories|F-key-int'),
    ('basic', 'PUT', '/resource_providers/%s/inventories' % RP[1], '1.39',
     b'{"resource_provider_generation": @GEN@, "inventories": {"vcpu": {"total": "x"}}}',
     '/resource_providers/{uuid}/inventories|F-key-record'),
    ('basic', 'PUT', '/resource_providers/%s/inventories' % RP[1], '1.39',
     b'{"resource_provider_generation": @GEN@, "inventories": {"vcpu": "ab"}}', '/resource_providers/{uuid}/inventories|F-key-str'),
    ('basic', 'POST', '/reshaper', '1.39',
     ('{"inventories": {"%s": {"resource_provider_generation": @GEN@, "inventories": {"vcpu": 5}}}, "allocations": {}}' % RP[1]).encode(),
     '/reshaper|F-key-int'),
    ('basic', 'POST', '/reshaper', '1.39',
     ('{"inventories": {"%s": {"resource_provider_generation": @GEN@, "inventories": {"VCPU": {"total": 4, "allocation_ratio": NaN}}}},'
      ' "allocations": {}}' % RP[1]).encode(), '/reshaper|E-nan-ratio'),
    ('empty', 'POST', '/resource_classes', '1.39', b'{"name": "CUSTOM_X\\n"}', '/resource_classes|J-trailing-newline'),
    ('empty', 'PUT', '/traits/CUSTOM_T%0A', '1.39', None, '/traits/{name}|J-trailing-newline'),
    ('empty', 'PUT', '/resource_classes/CUSTOM_X%0A', '1.39', None, '/resource_classes/{name}|J-trailing-newline'),
    ('exotic', 'GET', '/allocation_candidates?resources=VCPU:1,DISK_GB:5', '1.39', None,
     '/allocation_candidates|nested-sharing-provider'),
    # reads over trees that were shaped by moves (regression probes: every descendant must have followed its root)
    ('moved', 'GET', '/allocation_candidates?resources=VCPU:1', '1.39', None, '/allocation_candidates|moved-trees'),
    ('moved', 'GET', '/allocation_candidates?resources=VCPU:1,DISK_GB:5,MEMORY_MB:64', '1.39', None, '/allocation_candidates|moved-trees'),
    ('moved', 'GET', '/allocation_candidates?resources=DISK_GB:5', '1.28', None, '/allocation_candidates|moved-trees'),
    ('moved', 'GET', '/allocation_candidates?resources=VCPU:1&resources1=DISK_GB:5&in_tree=%s' % RP[3], '1.39', None,
     '/allocation_candidates|moved-trees'),
    ('moved', 'GET', '/resource_providers?in_tree=%s' % RP[2], '1.39', None, '/resource_providers|moved-trees'),
    ('moved', 'GET', '/resource_providers?resources=DISK_GB:1&in_tree=%s' % RP[3], '1.39', None, '/resource_providers|moved-trees'),
    ('empty', 'GET', '/usages?project_id=p1&name=%E9', '1.39', None, '/usages|query-invalid-utf8'),
    ('empty', 'POST', '/resource_providers', '1.39', _deep(100000), '/resource_providers|deep-nesting'),
    ('basic', 'PUT', '/resource_providers/%s/traits' % RP[1], '1.39', _deep(1100), '/resource_providers/{uuid}/traits|deep-nesting'),
]


def _walk(doc, depth=0):
    if depth > 50:
        return
    if isinstance(doc, dict):
        for k, v in doc.items():
            yield k, v
            for x in _walk(v, depth + 1):
                yield x
    elif isinstance(doc, list):
        for v in doc:
            for x in _walk(v, depth + 1):
                yield x


def causes_of(req, route):
    """Recognised kinds of malformation that the listed findings are about, read off the request itself
    (used only to name a 5xx precisely; [] = none recognised)."""
    out = set()
    body = req.get('body')
    doc = None
    if body is not None:
        try:
            from oslo_serialization import jsonutils
            doc = jsonutils.loads(body)
        except RecursionError:
            out.add('deeply-nested-json')
        except Exception:
            doc = None
    if doc is not None:
        try:
            for k, v in _walk(doc):
                if k == 'allocation_ratio' and isinstance(v, float) and (v != v or v in (D.INF, -D.INF)):
                    out.add('non-finite-allocation_ratio')
                if k == 'inventories' and isinstance(v, dict) and route != '/reshaper' or \
                        (route == '/reshaper' and k == 'inventories' and isinstance(v, dict) and doc.get('inventories') is not v):
                    if any(not re.search('^[A-Z0-9_]+$', kk) for kk in v):
                        out.add('unvalidated-inventories-key')
                if k == 'name' and isinstance(v, str) and v.endswith('\n') and route.startswith('/resource_classes'):
                    out.add('name-with-trailing-newline')
        except RecursionError:
            out.add('deeply-nested-json')
    for k, v in req.get('query') or []:
        if isinstance(v, str) and k.startswith('resources'):
            for m in re.finditer(r':(\d{19,})', v):
                if int(m.group(1)) >= 2 ** 63:
                    out.add('resources-amount-exceeds-int64')
        if isinstance(v, bytes):
            try:
                import urllib.parse
                urllib.parse.unquote_to_bytes(v).decode('utf-8')
            except UnicodeDecodeError:
                out.add('query-not-utf8')
    return sorted(out)


INVENTORY_WRITES = {('PUT', '/resource_providers/{uuid}/inventories'), ('POST', '/resource_providers/{uuid}/inventories'),
                    ('PUT', '/resource_providers/{uuid}/inventories/{resource_class}'), ('POST', '/reshaper')}


def signature_5xx(req, route, cls, site):
    """(method, route template, recognised kind of malformation | exception class@innermost placement frame)"""
    cz = causes_of(req, route)
    what = None
    if cls == 'RecursionError':
        what = 'deeply-nested-json'
    elif cls == 'UnicodeDecodeError' and 'query-not-utf8' in cz:
        what = 'query-not-utf8'
    elif cls in ('DBError', 'OverflowError') and 'resources-amount-exceeds-int64' in cz and req['method'] == 'GET':
        what = 'resources-amount-exceeds-int64'
    else:
        rel = []
        if (req['method'], route) in INVENTORY_WRITES:
            rel += [c for c in cz if c in ('non-finite-allocation_ratio', 'unvalidated-inventories-key')]
        if (req['method'], route) == ('POST', '/resource_classes'):
            rel += [c for c in cz if c == 'name-with-trailing-newline']
        if rel:
            what = '+'.join(sorted(rel))
    return 'c15:5xx:%s %s:%s' % (req['method'], route, what or '%s@%s' % (cls, site))


_ROUTE_RES = None


def match_route(path):
    """the ROUTE_DECLARATIONS template the (percent-decoded) path falls under, or '(unrouted)'"""
    global _ROUTE_RES
    import urllib.parse
    if _ROUTE_RES is None:
        _ROUTE_RES = [(t, re.compile('^' + re.sub(r'\\\{\w+\\\}', '[^/]+', re.escape(t)) + '$')) for t in sorted(routes())]
    p = urllib.parse.unquote_to_bytes(path.encode('utf-8', 'surrogatepass')).decode('latin-1')
    for t, rx in _ROUTE_RES:
        if rx.match(p) and '\n' not in p:
            return t
    for t, rx in _ROUTE_RES:
        if rx.match(p):
            return t
    return '(unrouted)'


def worker(args):
    """one process: one App, a share of the stream"""
    (wid, seed, n_requests, state_names) = args
    import random
    from harness.app import App, core
    rng = random.Random(seed)
    app = App()
    install_capture()
    rt = routes()
    res = {'tallies': {}, 'violations': [], 'samples': [], 'n': 0, 'distinct': set(), 'xdocs': [], 'aux_changed': 0}

    def tally(k, s):
        d = res['tallies'].setdefault(k, {})
        d[s] = d.get(s, 0) + 1

    def violation(kind, sig, detail, rp):
        res['violations'].append((kind, sig, detail, rp))

    state = {'broken': False}

    def run_one(sname, req, route, kinds, version, cur):
        del _captured[:]
        res['n'] += 1
        tally('by_route', '%s %s' % (req['method'], route))
        for k in kinds:
            tally('by_malformation', k.split(':')[0] + ':' + k.split(':')[1] if ':' in k else k)
        tally('by_state', sname)
        try:
            status, headers, body = send(app, req)
        except Exception as e:
            sig = 'c15:escaped:%s %s:%s' % (req['method'], route, type(e).__name__)
            violation('monitor', sig, 'exception escaped the WSGI application: %r' % (e,),
                      replay_obj(sname, req, route, kinds, 'exception %s: %s' % (type(e).__name__, str(e)[:300]),
                                 'an HTTP response'))
            tally('by_status', 'escaped')
            state['broken'] = True
            return cur
        tally('by_status', str(status))
        key = (req['method'], route, tuple(sorted(set(kinds))), status, version if status < 400 else None)
        res['distinct'].add(hash(key))
        if len(res['samples']) < 3 and status >= 400 and kinds != ['none']:
            res['samples'].append({'state': sname, 'method': req['method'], 'path_qs': path_qs(req)[:300],
                                   'headers': req['headers'], 'body': (req['body'] or b'')[:300].decode('latin-1'),
                                   'malformations': kinds, 'status': status, 'response': body[:300].decode('latin-1')})
        # ---- monitor: never a 5xx
        if status >= 500:
            cls, site, msg = _captured[-1] if _captured else ('?', '?', body[:200].decode('latin-1'))
            tally('error_kinds', '%d %s@%s' % (status, cls, site))
            sig = signature_5xx(req, route, cls, site)
            violation('monitor', sig, '%d: %s: %s' % (status, cls, msg),
                      replay_obj(sname, req, route, kinds, '%d %s at %s: %s' % (status, cls, site, msg), '4xx'))
        # ---- monitor: error body
        acc = req['headers'].get('accept')
        if 400 <= status < 500 and status != 401 and acc in ACCEPT_JSONISH and req['method'] != 'HEAD':
            probs = check_error_body(status, headers, body)
            if probs:
                sig = 'c15:errbody:%s %s:%d:%s' % (req['method'], route, status, norm_msg(probs[0]))
                violation('monitor', sig, '; '.join(probs),
                          replay_obj(sname, req, route, kinds, {'status': status, 'headers': headers,
                                                                'body': body[:600].decode('latin-1')},
                                     'errors[0] with status/title/detail/request_id, code iff >= 1.23'))
            else:
                try:
                    e0 = json.loads(body)['errors'][0]
                    tally('error_codes', e0.get('code', '(none)'))
                    tally('error_kinds', '%d %s' % (status, norm_msg(re.sub(r'^.*?\n\n ?', '', e0.get('detail', ''), flags=re.S))[:48]))
                except Exception:
                    pass
        # ---- monitor: rejected requests change nothing
        new = app.dump()
        if status in REJECTED or status >= 500:
            if core(new) != core(cur):
                changed = sorted(k for k in core(new) if core(new)[k] != core(cur).get(k))
                if status in REJECTED:
                    sig = 'c15:state:%s %s:%d:%s' % (req['method'], route, status, ','.join(changed))
                    violation('monitor', sig, 'tables changed by a request answered %d: %s' % (status, changed),
                              replay_obj(sname, req, route, kinds, {'status': status, 'changed': changed,
                                         'before': {k: cur[k] for k in changed}, 'after': {k: new[k] for k in changed}},
                                         'no change'))
                else:
                    tally('state_changed_by_5xx', ','.join(changed))
            elif new != cur:
                res['aux_changed'] += 1
        # ---- correspondence: the translator's handler -> schema map explains the answer
        av = applied_version(headers)
        if req['method'] in rt.get(route, []) and av is not None and req['body'] is not None \
                and not any(k.startswith('path:') for k in kinds):
            sn, schema = schema_for(route, req['method'], 'body', av)
            if schema is not None:
                parsed = None
                try:
                    from oslo_serialization import jsonutils
                    parsed = ('ok', jsonutils.loads(req['body']))
                except Exception:
                    parsed = None
                if parsed is not None:
                    ok = py_verdict(sn, schema, parsed[1], None)
                    det = ''
                    if status == 400:
                        try:
                            det = json.loads(body)['errors'][0]['detail']
                        except Exception:
                            det = ''
                    bad = None
                    if (200 <= status < 300 or status == 409) and not ok:
                        bad = 'answered %d although the body does not validate against %s' % (status, sn)
                    elif status == 400 and 'JSON does not validate' in det and ok:
                        bad = 'answered "JSON does not validate" although the body validates against %s' % sn
                    tally('schema_map_checks', 'valid' if ok else 'invalid')
                    if bad:
                        violation('correspondence', 'schema-map:%s %s:%s' % (req['method'], route, sn), bad,
                                  replay_obj(sname, req, route, kinds, {'status': status, 'detail': det[:300]},
                                             'consistent with Gen.Schemas.handlerSchemas'))
                    if len(res['xdocs']) < 400 and len(req['body']) < 5000:
                        res['xdocs'].append((sn, req['body'], ok))
        return new

    if wid == 0:
        # directed corpus first: the requests of every listed finding and of past failures
        for (sname, method, pq, ver, cbody, label) in CORPUS:
            del _history[:]
            snap = build_state(app, sname)
            cur = app.dump()
            path, _, q = pq.partition('?')
            req = {'method': method, 'path': path,
                   'query': [(k, v.encode('latin-1')) for k, _, v in (kv.partition('=') for kv in q.split('&'))] if q else [],
                   'headers': {'x-auth-token': 'admin', 'x-roles': 'admin,service', 'accept': 'application/json',
                               'openstack-api-version': 'placement %s' % ver}, 'body': cbody, 'doc': None, 'schema': None}
            if cbody is not None:
                req['body'] = cbody.replace(b'@GEN@', str(cur['rps'].get(RP[1], {}).get('gen', 0)).encode())
                req['headers']['content-type'] = 'application/json'
            route = label.split('|')[0]
            before = dict(res['tallies'].get('by_status', {}))
            run_one(sname, req, route, ['corpus:' + label.split('|')[1]], tuple(int(x) for x in ver.split('.')), cur)
            after = res['tallies'].get('by_status', {})
            st = [k for k in after if after[k] != before.get(k, 0)]
            tally('corpus', '%s %s -> %s' % (method, label, ','.join(st)))
    per_state = max(1, n_requests // len(state_names))
    for sname in state_names:
        snap = build_state(app, sname)
        del _history[:]
        cur = app.dump()
        since_reset = 0
        for i in range(per_state):
            if since_reset >= 150:
                restore_state(app, snap)
                del _history[:]
                cur = app.dump()
                since_reset = 0
            since_reset += 1
            view = View(cur)
            try:
                req, route, kinds, version = gen_request(view, rng, rt)
            except Exception as e:      # a bug of the generator must not end the run
                tally('generator_errors', type(e).__name__)
                continue
            new = run_one(sname, req, route, kinds, version, cur)
            if new != cur:
                _history.append(req_rec(req))
            cur = new
            if state['broken'] or len(_history) > 40:
                state['broken'] = False
                restore_state(app, snap)
                del _history[:]
                cur = app.dump()
                since_reset = 0
    res['distinct'] = list(res['distinct'])
    return res


# =============================================================================== run / replay

def stream(chk, total, nproc=16):
    import multiprocessing
    names = list(STATES)
    per = max(len(names), total // nproc)
    jobs = [(i, chk.rng.getrandbits(48), per, names[i % len(names):] + names[:i % len(names)]) for i in range(nproc)]
    ctx = multiprocessing.get_context('fork')
    with ppool.Pool(ctx, nproc) as pool:
        results = pool.map(worker, jobs, chunksize=1)
    distinct = set()
    xdocs = []
    n = 0
    aux = 0
    for r in results:
        n += r['n']
        aux += r['aux_changed']
        distinct.update(r['distinct'])
        xdocs.extend(r['xdocs'])
        for k, d in r['tallies'].items():
            for sub, c in d.items():
                chk.tally(k, sub, c)
        for (kind, sig, detail, rp) in r['violations']:
            chk.violation(kind, sig, detail, rp)
        for smp in r['samples'][:1]:
            chk.sample(smp, cap=6)
    chk.cov['evaluations'] += n
    chk.cov['stream_requests'] = n
    chk.cov['stream_distinct'] = len(distinct)
    chk._distinct.update(('s', h) for h in distinct)
    chk.cov['aux_rows_changed_on_rejected_requests'] = aux
    chk.cov['states'] = len(names)
    return xdocs


def stream_docs_through_lean(chk, xdocs):
    """bodies taken from the stream, both validators once more"""
    from oslo_serialization import jsonutils
    lines, kept = [], []
    for (sn, body, ok) in xdocs[:3000]:
        try:
            data = jsonutils.loads(body)
            line = json.dumps({'s': sn, 'd': D.encode(data)})
        except (ValueError, D.Unencodable, RecursionError):
            continue
        if len(line) > 60000 or line.count('[') > 400:
            continue
        lines.append(line)
        kept.append((sn, body, ok))
    if not lines:
        return
    answers = run_lean(lines)
    for (sn, body, ok), ans in zip(kept, answers):
        chk.evaluation(('xval-stream', sn, body[:300].decode('latin-1')))
        if {'1': True, '0': False}.get(ans) != ok:
            chk.violation('correspondence', 'validator-model:%s' % sn,
                          'Lean validate says %s, jsonschema says %s (body taken from the request stream)' % (ans, ok),
                          {'type': 'request', 'module': 'harness.props.c15', 'what': 'xval', 'schema': sn,
                           'document': body.decode('latin-1'), 'lean': ans, 'python': ok})
    chk.cov['xval_stream_documents'] = len(kept)


RACES = {'n_rps': 2, 'setup_ops': 14, 'existing_consumer_bias': 0.3, 'empty_bias': 0.1, 'model': False, 'p_new_names': 0.7,
         'setup_weights': {'rp_delete': 0, 'rc_rename': 0, 'rc_delete': 0, 'trait_delete': 0},
         'race_kinds': {'alloc_put': 8, 'alloc_post': 4, 'reshape': 2, 'aggs_set': 3, 'rp_traits_set': 2, 'inv_set': 1,
                        'rp_create': 2, 'trait_put': 1, 'rc_put': 1},
         'p_three': 0.05}


def run(chk):
    thorough = chk.tier == 'thorough'
    ok = True
    if not getattr(chk, 'no_lean', False):
        ok = chk.lean_stage(META['lean_module'])
    chk.assumptions += [
        'jsonschema 4.x (Draft 2020-12 default) + FormatChecker + re.search implement the semantics of '
        'Model/Schema.lean and Model/Regex.lean: cross-validated on every run (stage 2), not proved',
        'domain exceptions raised per handler (Props/C15.lean domainRaises) were read off placement/objects by hand',
        'no code point outside ASCII lower-cases to an ASCII hexadecimal digit (uuid format checker), checked for the installed CPython',
        'state = harness.app.core(App.dump()): project / user / consumer-type registries and the aggregate uuid '
        'registry are not counted (as for C04); changes of those alone are counted in aux_rows_changed_on_rejected_requests',
    ]
    t0 = time.time()
    try:
        cross_validate(chk, 600 if thorough else 60)
    except Exception as e:
        # the driver does not run when the Lean side is broken: the search of the implementation goes on
        chk.notes.append('cross-validation not run: %s' % str(e)[:400])
        if ok:
            raise
    chk.cov['xval_wall_s'] = round(time.time() - t0, 1)
    t0 = time.time()
    xdocs = stream(chk, 400000 if thorough else 36000)
    chk.cov['stream_wall_s'] = round(time.time() - t0, 1)
    try:
        stream_docs_through_lean(chk, xdocs)
    except Exception as e:
        chk.notes.append('stream documents not cross-validated: %s' % str(e)[:400])
        if ok:
            raise
    # stage 4: VALID requests racing (every interleaving at transaction granularity): judged only on "no 5xx, and the
    # request terminates".  Records created on first use (projects, users, consumer types, consumers, aggregates,
    # custom names) are looked up and then inserted; the request that loses such a race must not answer 500.
    from harness import conc
    conc.run_races(chk, ['C15'], 96 if not thorough else 600, 80 if not thorough else 300, RACES)
    chk.cov['exhaustive'] = False
    chk.cov['rule'] = (
        'stage 2: per schema of placement.schemas.* 1 valid document in 4 (type-directed) and 3 grammar mutants in 4 '
        '(18 mutation kinds, 1-2 applied), plus exotic strings against every regex and the uuid checker; distinct = '
        'distinct (schema, document). stage 3: route x method (declared and undeclared) x microversion 1.0-1.39 x '
        'valid request built type-directed from the schema the handler uses at that version with values aimed at the '
        'current state, then 0-3 malformations out of ~60 kinds (body tree, body bytes, content-type, accept, '
        'microversion header, query, path, extra headers, token, content-length, semantic conflicts) in 4 states '
        '(empty, basic, exotic topologies, trees shaped by moves, full); distinct = distinct (method, route, set of malformation kinds, '
        'status, version if accepted); non-trivial = all (a request without malformation is the valid baseline).')
    return ok


def replay(doc):
    """./check replay <file>"""
    rp = doc['replay']
    import placement.util  # noqa
    if rp.get('what', '').startswith('xval'):
        if rp['what'] == 'xval':
            from oslo_serialization import jsonutils
            schema = dict(_schemas())[rp['schema']]
            data = jsonutils.loads(rp['document'])
            py = py_verdict(rp['schema'], schema, data, None)
            ans = run_lean([json.dumps({'s': rp['schema'], 'd': D.encode(data)})])[0]
        elif rp['what'] == 'xval-re':
            import placement.schemas.common as common
            py = re.search(vars(common)[rp['name']], rp['string']) is not None
            ans = run_lean([json.dumps({'re': rp['name'], 't': [ord(c) for c in rp['string']]})])[0]
        else:
            from oslo_utils import uuidutils
            py = bool(uuidutils.is_uuid_like(rp['string']))
            ans = run_lean([json.dumps({'uuid': [ord(c) for c in rp['string']]})])[0]
        print('python: %s   lean: %s' % (py, ans))
        hit = {'1': True, '0': False}.get(ans) != py
        print('REPRODUCED' if hit else 'not reproduced')
        return 1 if hit else 0
    from harness.app import App, core
    app = App()
    install_capture()
    build_state(app, rp['state'])

    def to_req(rec):
        body = rec.get('body')
        if body is not None:
            body = body['text'].encode('utf-8') if 'text' in body else base64.b64decode(body['base64'])
        path, _, q = rec['path_qs'].partition('?')
        import urllib.parse
        query = [(urllib.parse.unquote(k), v.encode('latin-1')) for k, _, v in (kv.partition('=') for kv in q.split('&'))] if q else []
        return {'method': rec['method'], 'path': path, 'query': query, 'headers': rec['headers'], 'body': body}

    for rec in rp.get('history', []):
        try:
            st = send(app, to_req(rec))[0]
        except Exception as e:
            st = 'exception %r' % (e,)
        print('  history: %s %s -> %s' % (rec['method'], rec['path_qs'][:120], st))
    req = to_req(rp)
    pq = rp['path_qs']
    before = app.dump()
    try:
        status, headers, rbody = send(app, req)
    except Exception as e:
        print('exception escaped: %r' % (e,))
        print('REPRODUCED')
        return 1
    after = app.dump()
    print('%s %s -> %d' % (rp['method'], pq[:200], status))
    print(rbody[:600].decode('latin-1'))
    hit = False
    sig = doc.get('signature', '')
    if sig.startswith('c15:5xx') or sig.startswith('c15:escaped'):
        hit = status >= 500
        if _captured:
            print('exception: %s at %s: %s' % _captured[-1])
    elif sig.startswith('c15:errbody'):
        probs = check_error_body(status, headers, rbody) if 400 <= status < 500 else []
        print('error body problems:', probs)
        hit = bool(probs)
    elif sig.startswith('c15:state'):
        hit = status in REJECTED and core(before) != core(after)
    else:
        print('expected:', rp.get('expected'), ' recorded observation:', rp.get('observed'))
        hit = status >= 500
    print('REPRODUCED' if hit else 'not reproduced')
    return 1 if hit else 0
