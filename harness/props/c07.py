from harness import conc

META = {
    'property_id': 'C07', 'lean_module': 'Placement.Props.C07', 'category': 'proof',
    'text': 'Lean 4: optimistic-concurrency lemma over Prog (reads, then one validating commit transaction) giving equivalence of '
            'the successful requests to a serial order and no joint over-commit, instantiated for the generation-guarded and '
            'allocation-writing programs under an explicit hypothesis that excludes the transient-consumer patterns recorded as '
            'known findings (theorem _partial); tied to the code by exhaustive interleavings with a serial-permutation oracle '
            'evaluated on the real application; the retry loop of replace_all is translated from its AST and proved to end only in a '
            'successful attempt or the conflict (allocation_write_succeeds_only_by_a_successful_attempt).',
    'level_note': 'trusted: Lean kernel; scheduler = serializable DBMS at transaction granularity; _partial: consumer creation is not auxiliary state.',
    'technique': 'Lean 4 proof (serializability by commit order) + exhaustive interleaving exploration with serial-permutation oracle',
    'design_ref': 'DESIGN.md section 5, C07',
}

PROFILE = {'n_rps': 2, 'setup_ops': 16,
           'setup_weights': {'rp_delete': 0, 'alloc_put': 25, 'alloc_delete': 1, 'rc_rename': 0, 'rc_delete': 0, 'trait_delete': 0,
                             'rp_update': 0},
           'race_kinds': {'alloc_put': 8, 'alloc_post': 3, 'inv_set': 3, 'inv_update': 2, 'rp_traits_set': 1, 'aggs_set': 1, 'reshape': 3},
           'p_three': 0.08, 'empty_bias': 0.2, 'p_move': 0.3, 'p_empty_reshape': 0.7, 'existing_consumer_bias': 0.5}


def run(chk):
    if not getattr(chk, 'no_lean', False):
        chk.lean_stage(META['lean_module'], exe=True)
    n = 110 if chk.tier == 'quick' else 800
    conc.run_races(chk, ['C07'], n, 160 if chk.tier == 'quick' else 800, PROFILE)
    chk.cov['rule'] = ('start states at the capacity boundary built through the API; 2 (8%: 3) allocation writes and guarded inventory / '
                       'trait / aggregate updates racing for one inventory, provider or consumer; every canonical interleaving executed on '
                       'the real application; for each the successful requests are replayed serially in every order on a copy of the start '
                       'database: some order must reproduce the final tables with all of them succeeding; distinct = kinds of races')
