from harness import conc

META = {
    'property_id': 'C05', 'lean_module': 'Placement.Props.C05', 'category': 'proof',
    'text': 'Lean 4 theorems over the scheduled semantics (Prog.runSched) of the transaction programs of the provider-writing '
            'handlers: for any number of concurrent requests and ANY schedule a generation-guarded write commits only against '
            'the generation it carries, provider generations never decrease, at most one of the requests carrying the same '
            '(provider, generation) succeeds; the programs are tied to the code by running every interleaving of request '
            'pairs on the real application under a transaction-granular scheduler and comparing transaction traces, '
            'statuses and final tables with the model (incl. directed shapes: a write over two providers with the contended one listed '
            'second, an emptying reshape against a guarded change).  The control flow of the server-side retry loop of replace_all is '
            'TRANSLATED from its AST (Gen.replaceAllLoop): it returns normally only after a successful attempt.',
    'level_note': 'trusted: Lean kernel; scheduler = serializable DBMS at transaction granularity (as the property states); '
                  'correspondence enumerates schedules of pairs exhaustively (canonical up to commuting reads), triples sampled.',
    'technique': 'Lean 4 proof (invariant over all schedules) + exhaustive interleaving correspondence on the real code',
    'design_ref': 'DESIGN.md section 5, C05',
}

PROFILE = {'n_rps': 3, 'setup_ops': 14,
           'setup_weights': {'rp_delete': 0, 'alloc_delete': 1, 'rc_rename': 0, 'rc_delete': 0, 'trait_delete': 0},
           'race_kinds': {'inv_set': 4, 'inv_update': 3, 'inv_add': 2, 'inv_delete': 2, 'inv_delete_all': 1, 'rp_traits_set': 4,
                          'rp_traits_delete': 1, 'aggs_set': 3, 'reshape': 2, 'alloc_put': 3, 'alloc_post': 1},
           'p_three': 0.1}


def run(chk):
    if not getattr(chk, 'no_lean', False):
        chk.lean_stage(META['lean_module'], exe=True)
    n = 160 if chk.tier == 'quick' else 1500
    conc.run_races(chk, ['C05'], n, 200 if chk.tier == 'quick' else 1000, PROFILE)
    chk.cov['rule'] = ('start states built through the API (<=3 providers); 2 (10%: 3) requests drawn from all provider-writing operations '
                       'aimed at one provider with current or stale generations; every canonical interleaving of their database '
                       'transactions is executed on the real application (cap per case in schedules_cap) and by the Lean model; '
                       'distinct = kinds of races')
    chk.cov['schedules_cap'] = 200 if chk.tier == 'quick' else 1000
