"""C16  Every operation is authenticated and authorised before it has any effect.

Lean stage (Placement.Props.C16) + exhaustive matrix on the real WSGI application:

    every route x method of ROUTE_DECLARATIONS
  x caller classes {no token, no roles, reader, member, admin, service} x {own, other project} (+ 4 edge classes)
  x {default policy, every registered rule overridden to '@', to '!'}    (policy file + placement.policy re-init)
  + "gate" requests (405 / 415 / 406 / 404-by-microversion / unknown path) x callers under the default policy.

Monitors (real code only, independent of the Lean model): no credentials => 401 except `/`; a caller the property
text does not admit never gets 2xx, gets 403 (or the same 404/405/406/415 as everybody), no stored data in the answer,
database dump unchanged and not a single SQL statement issued; a caller the text admits is not refused.
Correspondence: the verdict (401 / 403 / pass) computed by the Lean model `Pipeline.respond` over the generated tables
(run with `lake env lean --run`) equals the observed one, for every cell of the matrix.
"""
from harness import ppool
import fcntl
import json
import multiprocessing
import os
import shutil
import subprocess
import sys
import tempfile
import time

from harness.common import LEAN

META = {
    'property_id': 'C16', 'lean_module': 'Placement.Props.C16', 'category': 'proof',
    'text': 'Lean 4 theorems over tables regenerated from the source on every run (policy defaults parsed from '
            'placement.policies, routing table, handler -> rule map and the statements preceding each handler\'s first '
            'context.can from an ast walk): for EVERY caller (any role list, user, project, scope) and every routed '
            'operation the default policy authorises exactly project-scoped admin or service (reshaper: service only; '
            'GET /usages: also a reader of the queried project); every routed handler but the version document checks '
            'exactly the one rule documented for its method and path; replacing one documented rule by @ / ! changes '
            'exactly the operations documented under it; nothing but pure request accessors runs before the check; no '
            'token => 401 except /.  Tied to the code by the exhaustive matrix routes x caller classes x single-rule '
            'overrides on the real application with SQL-statement, dump and response monitors, by comparing every '
            'cell with the verdict the Lean model computes, and by editing the policy file of the RUNNING service (its decisions must '
            'equal those of a service started with the file as it then reads).  The source of a request\'s roles in NoAuthMiddleware is '
            'generated and tied to the model (an X-Roles header that is present and empty means no roles).',
    'level_note': 'trusted: Lean kernel, the n!"..." name encoding done at elaboration time, the Python translator, '
                  'oslo.policy / oslo.context / webob as exercised; keystonemiddleware token validation is not '
                  'exercised (auth_strategy=noauth2).',
    'technique': 'Lean 4 theorems over generated tables + exhaustive probe of the real app',
    'design_ref': 'DESIGN.md section 5, C16',
}

# Cases in which the UNCHANGED tree violates the property as worded (reported as monitor violations with exactly these
# signatures; the lead decides between a fix and a known finding).  All three are one behaviour: layers that run
# before routing/authorisation (the microversion middleware, PlacementHandler.__call__'s content-length test) answer
# 400 to every authenticated caller, so a caller without the required role gets 400 instead of 403, and 400 is not
# among the codes the property allows in place of 403 (404, 405, 406, 415).  Nothing is stored, shown or queried.
SUSPECTED_DEFECTS = [
    '400-before-authorisation:content-length-without-content-type',
    '400-before-authorisation:content-length-not-an-integer',
    '400-before-authorisation:malformed-microversion-header',
]
FRAMING = [
    ('framing:content-length-without-content-type', 'POST', '/resource_providers',
     {'raw_body': b'{"name": "x"}', 'content_type': None}, 400),
    ('framing:content-length-not-an-integer', 'POST', '/resource_providers',
     {'raw_body': b'{"name": "x"}', 'headers': {'Content-Length': 'abc'}}, 400),
    ('framing:malformed-microversion-header', 'GET', '/resource_providers',
     {'version': None, 'headers': {'OpenStack-API-Version': 'placement abc'}}, 400),
]

OWN, OTHER = 'projA', 'projB'
RP1 = '11111111-1111-4111-8111-111111111111'
RP2 = '22222222-2222-4222-8222-222222222222'
RP3 = '33333333-3333-4333-8333-333333333333'
AGG1 = 'aaaaaaaa-aaaa-4aaa-8aaa-aaaaaaaaaaa1'
AGG2 = 'aaaaaaaa-aaaa-4aaa-8aaa-aaaaaaaaaaa2'
C1 = 'cccccccc-cccc-4ccc-8ccc-ccccccccccc1'
C2 = 'cccccccc-cccc-4ccc-8ccc-ccccccccccc2'
SECRETS = [RP1, RP2, AGG1, C1, 'rp-one', 'rp-two', 'CUSTOM_RC_ONE', 'CUSTOM_T_ONE', 'CUSTOM_T_TWO', 'userA']
VERSION = '1.39'


# ------------------------------------------------------------------------------------------------
# callers
# ------------------------------------------------------------------------------------------------
def callers():
    """(name, token, extra headers, roles (lower-case set), project, scope-limited?)"""
    out = [('none', None, {}, set(), None, False)]
    for proj, tag in ((OWN, 'own'), (OTHER, 'other')):
        out.append(('noroles-' + tag, 'u_noroles:' + proj, {}, set(), proj, False))
        out.append(('reader-' + tag, 'u_reader:' + proj, {'X-Roles': 'reader'}, {'reader'}, proj, False))
        out.append(('member-' + tag, 'u_member:' + proj, {'X-Roles': 'member,reader'}, {'member', 'reader'}, proj, False))
        out.append(('admin-' + tag, 'u_admin:' + proj, {'X-Roles': 'admin,member,reader'}, {'admin', 'member', 'reader'}, proj, False))
        out.append(('service-' + tag, 'u_service:' + proj, {'X-Roles': 'service'}, {'service'}, proj, False))
    # edge classes: the middleware's built-in admin token, role case, tokens that are not project scoped
    out.append(('admin-token', 'admin', {}, {'admin'}, 'admin', False))
    out.append(('admin-uppercase', 'u_adm2:' + OWN, {'X-Roles': 'Admin'}, {'admin'}, OWN, False))
    out.append(('admin-system-scope', 'u_adm3:' + OWN, {'X-Roles': 'admin', 'OpenStack-System-Scope': 'all'}, {'admin'}, None, True))
    out.append(('service-domain-scope', 'u_svc2:' + OWN, {'X-Roles': 'service', 'X-Domain-Id': 'dom1'}, {'service'}, OWN, True))
    # an X-Roles header that is PRESENT and empty says "no roles" - also for the user name the middleware would otherwise
    # give the admin role
    out.append(('admin-token-empty-roles', 'admin', {'X-Roles': ''}, set(), 'admin', False))
    out.append(('admin-user-empty-roles', 'admin:' + OWN, {'X-Roles': ''}, set(), OWN, False))
    return out


# ------------------------------------------------------------------------------------------------
# requests: one per route x method, against entities that exist so that an authorised call succeeds
# ------------------------------------------------------------------------------------------------
def build_state(app):
    """Base state every request starts from (restored before each request).  Returns generations."""
    def ok(r, *codes):
        if r.status not in codes:
            raise RuntimeError('fixture request failed: %r' % (r,))
        return r
    call = lambda m, p, b=None: app.call(m, p, b, version=VERSION, token='setup:' + OWN, roles='admin,service')
    ok(call('POST', '/resource_providers', {'name': 'rp-one', 'uuid': RP1}), 200)
    ok(call('POST', '/resource_providers', {'name': 'rp-two', 'uuid': RP2}), 200)
    ok(call('PUT', '/resource_classes/CUSTOM_RC_ONE'), 201)
    ok(call('PUT', '/traits/CUSTOM_T_ONE'), 201)
    ok(call('PUT', '/traits/CUSTOM_T_TWO'), 201)
    ok(call('PUT', '/resource_providers/%s/inventories' % RP1,
            {'resource_provider_generation': 0, 'inventories': {'VCPU': {'total': 8}, 'DISK_GB': {'total': 100}}}), 200)
    ok(call('PUT', '/resource_providers/%s/traits' % RP1, {'resource_provider_generation': 1, 'traits': ['CUSTOM_T_ONE']}), 200)
    ok(call('PUT', '/resource_providers/%s/aggregates' % RP1, {'resource_provider_generation': 2, 'aggregates': [AGG1]}), 200)
    ok(call('PUT', '/allocations/%s' % C1, {
        'allocations': {RP1: {'resources': {'VCPU': 1}}}, 'project_id': OWN, 'user_id': 'userA',
        'consumer_generation': None, 'consumer_type': 'INSTANCE'}), 204)
    g1 = ok(call('GET', '/resource_providers/%s' % RP1), 200).json['generation']
    g2 = ok(call('GET', '/resource_providers/%s' % RP2), 200).json['generation']
    return {'g1': g1, 'g2': g2}


def requests(gens):
    """{(template, method): (concrete path, query string, body)}"""
    g1, g2 = gens['g1'], gens['g2']
    alloc = {'allocations': {RP1: {'resources': {'VCPU': 1}}}, 'project_id': OWN, 'user_id': 'userA',
             'consumer_generation': None, 'consumer_type': 'INSTANCE'}
    R = {
        ('/', 'GET'): ('/', '', None),
        ('', 'GET'): ('', '', None),
        ('/resource_classes', 'GET'): ('/resource_classes', '', None),
        ('/resource_classes', 'POST'): ('/resource_classes', '', {'name': 'CUSTOM_RC_NEW'}),
        ('/resource_classes/{name}', 'GET'): ('/resource_classes/CUSTOM_RC_ONE', '', None),
        ('/resource_classes/{name}', 'PUT'): ('/resource_classes/CUSTOM_RC_NEW', '', None),
        ('/resource_classes/{name}', 'DELETE'): ('/resource_classes/CUSTOM_RC_ONE', '', None),
        ('/resource_providers', 'GET'): ('/resource_providers', '', None),
        ('/resource_providers', 'POST'): ('/resource_providers', '', {'name': 'rp-new', 'uuid': RP3}),
        ('/resource_providers/{uuid}', 'GET'): ('/resource_providers/' + RP1, '', None),
        ('/resource_providers/{uuid}', 'PUT'): ('/resource_providers/' + RP1, '', {'name': 'rp-renamed'}),
        ('/resource_providers/{uuid}', 'DELETE'): ('/resource_providers/' + RP2, '', None),
        ('/resource_providers/{uuid}/inventories', 'GET'): ('/resource_providers/%s/inventories' % RP1, '', None),
        ('/resource_providers/{uuid}/inventories', 'POST'): ('/resource_providers/%s/inventories' % RP2, '',
                                                             {'resource_class': 'VCPU', 'total': 4}),
        ('/resource_providers/{uuid}/inventories', 'PUT'): ('/resource_providers/%s/inventories' % RP2, '',
                                                            {'resource_provider_generation': g2, 'inventories': {'VCPU': {'total': 4}}}),
        ('/resource_providers/{uuid}/inventories', 'DELETE'): ('/resource_providers/%s/inventories' % RP2, '', None),
        ('/resource_providers/{uuid}/inventories/{resource_class}', 'GET'): ('/resource_providers/%s/inventories/VCPU' % RP1, '', None),
        ('/resource_providers/{uuid}/inventories/{resource_class}', 'PUT'): ('/resource_providers/%s/inventories/DISK_GB' % RP1, '',
                                                                             {'resource_provider_generation': g1, 'total': 200}),
        ('/resource_providers/{uuid}/inventories/{resource_class}', 'DELETE'): ('/resource_providers/%s/inventories/DISK_GB' % RP1, '', None),
        ('/resource_providers/{uuid}/usages', 'GET'): ('/resource_providers/%s/usages' % RP1, '', None),
        ('/resource_providers/{uuid}/aggregates', 'GET'): ('/resource_providers/%s/aggregates' % RP1, '', None),
        ('/resource_providers/{uuid}/aggregates', 'PUT'): ('/resource_providers/%s/aggregates' % RP1, '',
                                                           {'resource_provider_generation': g1, 'aggregates': [AGG2]}),
        ('/resource_providers/{uuid}/allocations', 'GET'): ('/resource_providers/%s/allocations' % RP1, '', None),
        ('/allocations', 'POST'): ('/allocations', '', {C2: alloc}),
        ('/allocations/{consumer_uuid}', 'GET'): ('/allocations/' + C1, '', None),
        ('/allocations/{consumer_uuid}', 'PUT'): ('/allocations/' + C2, '', alloc),
        ('/allocations/{consumer_uuid}', 'DELETE'): ('/allocations/' + C1, '', None),
        ('/allocation_candidates', 'GET'): ('/allocation_candidates', 'resources=VCPU:1', None),
        ('/traits', 'GET'): ('/traits', '', None),
        ('/traits/{name}', 'GET'): ('/traits/CUSTOM_T_ONE', '', None),
        ('/traits/{name}', 'PUT'): ('/traits/CUSTOM_T_NEW', '', None),
        ('/traits/{name}', 'DELETE'): ('/traits/CUSTOM_T_TWO', '', None),
        ('/resource_providers/{uuid}/traits', 'GET'): ('/resource_providers/%s/traits' % RP1, '', None),
        ('/resource_providers/{uuid}/traits', 'PUT'): ('/resource_providers/%s/traits' % RP1, '',
                                                       {'resource_provider_generation': g1, 'traits': ['CUSTOM_T_TWO']}),
        ('/resource_providers/{uuid}/traits', 'DELETE'): ('/resource_providers/%s/traits' % RP1, '', None),
        ('/usages', 'GET'): ('/usages', 'project_id=' + OWN, None),
        ('/reshaper', 'POST'): ('/reshaper', '', {
            'inventories': {RP1: {'resource_provider_generation': g1,
                                  'inventories': {'VCPU': {'total': 16}, 'DISK_GB': {'total': 100}}}},
            'allocations': {}}),
    }
    return R


def route_keys():
    from placement import handler
    return sorted((p, m) for p, ms in handler.ROUTE_DECLARATIONS.items() for m in ms)


def gate_requests():
    """Requests every caller must see rejected the same way before authorisation matters:
    (label, method, path, kwargs for App.call, expected status)."""
    from placement import handler
    out = []
    sample = requests({'g1': 0, 'g2': 0})
    try:
        from harness.extractors import policies as X
        rts = X.routes()
        hds = X.handler_defs(rts)
    except Exception as e:                       # translator broken: the Lean stage reports it; gates from routes only
        rts, hds = [], []
    decos = {}
    for h in hds:
        decos.setdefault(h['name'], []).append(h['decorators'])
    hname = {(p, m): '%s.%s' % (mod.split('.')[-1], f) for (p, m, mod, f) in rts}
    for path, ms in sorted(handler.ROUTE_DECLARATIONS.items()):
        if path in ('', '/'):
            continue
        concrete = None
        for m in sorted(ms):
            if (path, m) in sample:
                concrete = sample[(path, m)][0]
        if concrete is None:
            continue
        for bad in ('PATCH', 'POST', 'DELETE', 'PUT', 'GET'):
            if bad not in ms:
                out.append(('405 %s %s' % (bad, path), bad, concrete, {'body': {}} if bad in ('POST', 'PUT', 'PATCH') else {}, 405))
                break
        for m in sorted(ms):
            key = (path, m)
            if key not in sample or key not in hname:
                continue
            cpath, q, body = sample[key]
            full = cpath + ('?' + q if q else '')
            dl = decos.get(hname[key], [])
            if dl and all(any(fn.endswith('require_content') for fn, _ in d) for d in dl):
                out.append(('415 %s %s' % (m, path), m, full, {'raw_body': b'x=1', 'content_type': 'text/plain'}, 415))
            if dl and all(any(fn.endswith('check_accept') for fn, _ in d) for d in dl):
                out.append(('406 %s %s' % (m, path), m, full, {'body': body, 'accept': 'text/plain'}, 406))
            if len(dl) == 1:
                for fn, args in dl[0]:
                    if fn.endswith('version_handler') and args and args[0] not in ("'1.0'",):
                        code = 404
                        for a in args:
                            if a.startswith('status_code='):
                                code = int(a.split('=')[1])
                        out.append(('%d-by-version %s %s' % (code, m, path), m, full, {'body': body, 'version': '1.0'}, code))
    out.extend(FRAMING)
    out.append(('404 unknown path', 'GET', '/no_such_collection', {}, 404))
    out.append(('404 unknown subpath', 'GET', '/resource_providers/%s/no_such' % RP1, {}, 404))
    return out


# ------------------------------------------------------------------------------------------------
# policy tables
# ------------------------------------------------------------------------------------------------
def rule_index():
    """name -> set of documented (method, path template); {} for the generic rules."""
    import placement.policies as pol
    out = {}
    for r in pol.list_rules():
        out[r.name] = set((o['method'], o['path']) for o in (getattr(r, 'operations', None) or []))
    return out


def tables():
    names = list(rule_index())
    out = [('default', None, None)]
    for n in names:
        out.append(('%s=@' % n, n, '@'))
        out.append(('%s=!' % n, n, '!'))
    return out


# ------------------------------------------------------------------------------------------------
# the property's own oracle (from its text; independent of the Lean model)
# ------------------------------------------------------------------------------------------------
def text_oracle(table, key, caller, rules):
    """True = the text admits the caller, False = it does not, None = the text does not say
    (override of one of the generic, undocumented rules)."""
    path, method = key
    _, rule, val = table
    cname, token, _, roles, proj, scoped = caller
    if path in ('', '/'):
        return True
    project_scoped = not scoped

    def default():
        if not project_scoped:
            return False
        if (method, path) == ('POST', '/reshaper'):
            return 'service' in roles
        if (method, path) == ('GET', '/usages'):
            return 'admin' in roles or 'service' in roles or ('reader' in roles and proj == OWN)
        return 'admin' in roles or 'service' in roles
    if rule is None:
        return default()
    ops = rules.get(rule)
    if not ops:
        return None
    if (method, path) in ops:
        return project_scoped and val == '@'
    return default()


# ------------------------------------------------------------------------------------------------
# worker side: the real application
# ------------------------------------------------------------------------------------------------
_W = {}


def _worker_init(scratch):
    import sqlalchemy.event
    from harness.app import App
    pf = os.path.join(scratch, 'policy_%d.yaml' % os.getpid())
    with open(pf, 'w') as f:
        f.write('{}\n')
    app = App(policy_file=pf)
    log = []

    def hook(conn, cursor, statement, parameters, context, executemany):
        log.append(statement)
    sqlalchemy.event.listen(app.engine, 'before_cursor_execute', hook)
    gens = build_state(app)
    snap = app.snapshot()
    _W.update(app=app, pf=pf, log=log, gens=gens, snap=snap, base=app.dump(), reqs=requests(gens))


def _set_policy(rule, val):
    from placement import policy
    app = _W['app']
    with open(_W['pf'], 'w') as f:
        if rule is None:
            f.write('{}\n')
        else:
            f.write(json.dumps({rule: val}) + '\n')     # JSON is YAML
    policy.reset()
    policy.init(app.conf)
    enf = policy._ENFORCER
    want = {} if rule is None else {rule: val}
    got = dict((k, str(v.check)) for k, v in enf.file_rules.items())
    if got != want:
        raise RuntimeError('policy file not loaded as written: %r instead of %r' % (got, want))


def _edit_policy(content):
    """the operator edits the policy file of the RUNNING service (no restart, no policy.reset()): oslo.policy notices
    the newer modification time at the next check"""
    pf = _W['pf']
    with open(pf, 'w') as f:
        f.write(json.dumps(content) + '\n')
    _W['mtime'] = max(_W.get('mtime', 0), os.stat(pf).st_mtime, time.time()) + 2
    os.utime(pf, (_W['mtime'], _W['mtime']))


RELOAD_SEQ = ['grant', 'default', 'deny', 'default', 'grant', 'other', 'deny', 'other', 'default']


def _run_reload(task):
    """decisions of a service whose policy file is edited while it runs = decisions of a service started with the
    file as it then reads (an override the operator removes or replaces stops deciding requests)"""
    kind, (rule, other, keys), _v = task
    cl = callers()
    reqs = _W['reqs']
    contents = {'default': {}, 'grant': {rule: '@'}, 'deny': {rule: '!'}, 'other': {other: '@'}}

    def statuses():
        out = []
        for key in keys:
            cpath, q, body = reqs[tuple(key)]
            full = cpath + ('?' + q if q else '')
            out.append([_one(key[1], full, {'body': body}, c)[0] for c in cl])
        return out
    fresh = {}
    for name, content in contents.items():
        (r, v) = list(content.items())[0] if content else (None, None)
        _set_policy(r, v)
        fresh[name] = statuses()
    _set_policy(None, None)
    seen = []
    for name in RELOAD_SEQ:
        _edit_policy(contents[name])
        seen.append(statuses())
    _set_policy(None, None)
    return kind, (rule, other, keys), (fresh, seen), None


def _one(method, full_path, kw, caller):
    app, log = _W['app'], _W['log']
    app.restore(_W['snap'])
    del log[:]
    cname, token, hdrs = caller[0], caller[1], caller[2]
    args = dict(version=VERSION, token=token, roles=None)   # identity only from the caller's own headers
    args.update(kw)
    args['headers'] = dict(kw.get('headers') or {}, **hdrs)
    body = args.pop('body', None)
    r = app.call(method, full_path, body, **args)
    nsql = len(log)
    first = log[0][:160] if log else None
    changed = app.dump() != _W['base']
    text = json.dumps(r.json) if not isinstance(r.json, str) else r.json
    text += ' ' + ' '.join('%s' % v for k, v in r.headers.items())
    leak = [s for s in SECRETS if s in text]
    return [r.status, nsql, first, changed, leak]


VARIANTS = {'valid': None, 'empty-object': b'{}', 'malformed': b'{"not json'}


def _run_table(task):
    kind, table, variants = task
    cl = callers()
    if kind == 'reload':
        return _run_reload(task)
    if kind == 'gates':
        _set_policy(None, None)
        res = []
        for gi, (label, method, path, kw, expect) in enumerate(gate_requests()):
            for ci, c in enumerate(cl):
                res.append([gi, ci] + _one(method, path, kw, c))
        return kind, table, res, None
    name, rule, val = table
    _set_policy(rule, val)
    res = []
    keys = route_keys()
    reqs = _W['reqs']
    for ki, key in enumerate(keys):
        if key not in reqs:
            raise RuntimeError('no fixture request for route %r %r: extend harness/props/c16.py:requests' % key)
        cpath, q, body = reqs[key]
        full = cpath + ('?' + q if q else '')
        for vi, v in enumerate(variants):
            if v != 'valid' and body is None:
                continue                    # no body to vary
            kw = {'body': body} if v == 'valid' else {'raw_body': VARIANTS[v]}
            for ci, c in enumerate(cl):
                res.append([(ki, vi), ci] + _one(key[1], full, kw, c))
    return kind, table, res, {'%s %s' % (k[1], k[0]): list(reqs[k]) for k in keys}


# ------------------------------------------------------------------------------------------------
# Lean predictions
# ------------------------------------------------------------------------------------------------
def lean_str(s):
    return '"' + s.replace('\\', '\\\\').replace('"', '\\"') + '"'


def lean_opt(s):
    return 'none' if s is None else '(some %s)' % lean_str(s)


def predict(scratch, keys, reqs, cl):
    """Run the Lean model over the whole matrix.  Returns {(table name, method, template): [verdict per caller]}."""
    L = ['import Placement.Gen.Policies', 'open Placement.Policy Placement.Gen.Policies', '']
    L.append('def callers : List AuthHeaders := [')
    L.append(',\n'.join('  { token := %s, xRoles := %s, systemScope := %s, domainId := %s }' % (
        lean_opt(c[1]), lean_opt(c[2].get('X-Roles')), lean_opt(c[2].get('OpenStack-System-Scope')),
        lean_opt(c[2].get('X-Domain-Id'))) for c in cl))
    L.append(']')
    L.append('-- (method, route template, PATH_INFO, query)')
    L.append('def reqs : List (String × String × String × List (String × String)) := [')
    items = []
    for (tpl, m) in keys:
        cpath, q, _ = reqs[(tpl, m)]
        qs = [tuple(kv.split('=', 1)) for kv in q.split('&') if kv]
        items.append('  (%s, %s, %s, [%s])' % (lean_str(m), lean_str(tpl), lean_str(cpath),
                                               ', '.join('(%s, %s)' % (lean_str(k), lean_str(v)) for k, v in qs)))
    L.append(',\n'.join(items))
    L.append(']')
    L.append('''
def tables : List (String × Rules) :=
  ("default", []) :: ruleDefs.flatMap (fun d =>
    [(d.name.str ++ "=@", [(d.name, Check.tt)]), (d.name.str ++ "=!", [(d.name, Check.ff)])])

def main : IO Unit := do
  for (tn, file) in tables do
    for (m, tpl, pinfo, q) in reqs do
      match routes.find? (fun r => r.method == Name.ofString m && r.path == Name.ofString tpl) with
      | none => IO.println s!"{tn}\\t{m}\\t{tpl}\\tNOROUTE"
      | some r =>
        let query : Query := q.map (fun (k, v) => (Name.ofString k, v))
        let vs := callers.map (fun h => (pipeline.respond file r (Name.ofString pinfo) h query).code)
        IO.println s!"{tn}\\t{m}\\t{tpl}\\t{",".intercalate vs}"
''')
    path = os.path.join(scratch, 'C16Predict.lean')
    with open(path, 'w') as f:
        f.write('\n'.join(L))
    with open(os.path.join(LEAN, '.build.lock'), 'w') as lk:
        fcntl.flock(lk, fcntl.LOCK_EX)
        b = subprocess.run(['lake', 'build', 'Placement.Gen.Policies'], capture_output=True, text=True, cwd=LEAN)
        if b.returncode != 0:
            return None, 'lake build Placement.Gen.Policies failed: ' + (b.stdout + b.stderr)[-600:]
        p = subprocess.run(['lake', 'env', 'lean', '--run', path], capture_output=True, text=True, cwd=LEAN, timeout=600)
    if p.returncode != 0:
        return None, 'lean --run failed: ' + (p.stdout + p.stderr)[-600:]
    out = {}
    for line in p.stdout.split('\n'):
        if not line.strip():
            continue
        tn, m, tpl, vs = line.split('\t')
        out[(tn, m, tpl)] = vs.split(',')
    return out, None


# ------------------------------------------------------------------------------------------------
def observed_class(status):
    return '401' if status == 401 else ('403' if status == 403 else 'pass')


def mk_replay(table, method, full_path, body, caller, expected, observed, extra=None):
    rp = {'module': 'harness.props.c16', 'type': 'c16-request',
          'state': 'harness.props.c16.build_state (two providers, inventory, traits, aggregate, one consumer)',
          'policy_file': {} if table[1] is None else {table[1]: table[2]},
          'request': {'method': method, 'path': full_path, 'version': VERSION, 'token': caller[1],
                      'headers': caller[2], 'body': body},
          'caller_class': caller[0], 'expected': expected, 'observed': observed}
    if extra:
        rp.update(extra)
    return rp


class Capped(object):
    """At most `cap` distinct signatures per monitor are turned into violations; the rest is only counted."""

    def __init__(self, chk, cap=6):
        self.chk, self.cap, self.seen = chk, cap, {}

    def __call__(self, kind, monitor, sig, detail, replay):
        self.chk.tally('violations_by_monitor', '%s:%s' % (kind, monitor))
        s = self.seen.setdefault((kind, monitor), set())
        if sig in s or len(s) < self.cap:
            s.add(sig)
            self.chk.violation(kind, sig, detail, replay)


def run(chk):
    t0 = time.time()
    if not getattr(chk, 'no_lean', False):
        chk.lean_stage(META['lean_module'])
    scratch = tempfile.mkdtemp(prefix='c16_', dir='/dev/shm' if os.path.isdir('/dev/shm') else None)
    try:
        _run(chk, scratch)
    finally:
        shutil.rmtree(scratch, ignore_errors=True)
    chk.cov['matrix_wall_s'] = round(time.time() - t0, 1)


def _run(chk, scratch):
    cl = callers()
    keys = route_keys()
    tbls = tables()
    rules = rule_index()
    gates = gate_requests()
    vio = Capped(chk)
    suspected = set(SUSPECTED_DEFECTS)

    # ---- the real application, in parallel
    variants = ['valid'] if chk.tier == 'quick' else ['valid', 'empty-object', 'malformed']
    tasks = [('gates', None, variants)] + [('table', t, variants) for t in tbls]
    # policy file edited while the service runs: a sample of rules (all of them in the thorough tier), each on the
    # routes it guards, with another rule as the "different override"
    rnames = sorted(r for r in rules if rules[r])
    picked = rnames if chk.tier != 'quick' else chk.rng.sample(rnames, min(8, len(rnames)))
    for r in picked:
        other = chk.rng.choice([x for x in rnames if x != r])
        rkeys = sorted([list(k[::-1]) for k in rules[r]])[:4]
        tasks.append(('reload', (r, other, rkeys), None))
    nproc = min(16, os.cpu_count() or 4, len(tasks))
    ctx = multiprocessing.get_context('fork')
    with ppool.Pool(ctx, nproc, initializer=_worker_init, initargs=(scratch,)) as pool:
        results = pool.map(_run_table, tasks, chunksize=1)
    reqs_used = None
    for kind, table, res, used in results:
        if used is not None:
            reqs_used = used
    for kind, table, res, used in results:
        if kind != 'reload':
            continue
        rule, other, rkeys = table
        fresh, seen = res
        contents = {'default': {}, 'grant': {rule: '@'}, 'deny': {rule: '!'}, 'other': {other: '@'}}
        for step, name in enumerate(RELOAD_SEQ):
            chk.evaluation(['reload', rule, step], nontrivial=True)
            chk.count('policy_file_edits_checked', 1)
            if seen[step] != fresh[name]:
                ki, ci = [(a, b) for a in range(len(rkeys)) for b in range(len(cl)) if seen[step][a][b] != fresh[name][a][b]][0]
                vio('monitor', 'policy-edit', 'policy-edit-not-effective:%s-after-%s' % (name, RELOAD_SEQ[step - 1] if step else 'start'),
                    'after the policy file of the running service was edited to %s (previous contents: %s) %s %s as %s answers %s; '
                    'a service started with that file answers %s' % (json.dumps(contents[name]),
                    json.dumps(contents[RELOAD_SEQ[step - 1]] if step else {}), rkeys[ki][1], rkeys[ki][0], cl[ci][0],
                    seen[step][ki][ci], fresh[name][ki][ci]),
                    {'module': 'harness.props.c16', 'type': 'c16-policy-edits', 'rule': rule, 'other_rule': other, 'routes': rkeys,
                     'file_contents_in_order': [contents[n] for n in RELOAD_SEQ[:step + 1]], 'failing_step': step,
                     'caller_class': cl[ci][0], 'observed': seen[step][ki][ci], 'expected': fresh[name][ki][ci]})
                break
    results = [r for r in results if r[0] != 'reload']
    sample_reqs = requests({'g1': 0, 'g2': 0})

    # ---- Lean predictions for the same matrix
    pred, err = (None, 'lean stage skipped')
    if not getattr(chk, 'no_lean', False):
        if chk.lean.get('extract_errors'):
            err = 'translator failed, no prediction: %s' % chk.lean['extract_errors'][-1]
        else:
            pred, err = predict(scratch, keys, sample_reqs, cl)
    if pred is None:
        chk.notes.append('no Lean predictions: %s' % err)
        if not getattr(chk, 'no_lean', False) and chk.lean.get('ok'):
            raise RuntimeError('Lean prediction run failed although the Lean stage is fine: %s' % err)

    n_corr = 0
    for kind, table, res, used in results:
        if kind == 'gates':
            _check_gates(chk, vio, gates, cl, res)
            continue
        tname, rule, val = table
        # statuses of all callers per request (for "rejected the same way for every caller")
        by_req = {}
        for rec in res:
            by_req.setdefault(rec[0], {})[rec[1]] = rec[2]
        for (ki, vi), ci, status, nsql, first_sql, changed, leak in res:
            key = keys[ki]
            variant = variants[vi]
            c = cl[ci]
            path, method = key
            label = '%s %s' % (method, path or "''")
            cpath, q, body = used['%s %s' % (method, path)]
            full = cpath + ('?' + q if q else '')
            exp = text_oracle(table, key, c, rules)
            chk.evaluation([tname, label, variant, c[0]], nontrivial=False)
            chk._distinct.add((label, variant, c[0], 'default' if rule is None else ('own-rule' if key[::-1] in rules.get(rule, ()) else 'other-rule') + val, status))
            chk.tally('by_status', str(status))
            chk.tally('by_caller', c[0])
            obs = observed_class(status)

            def rp(expected, extra=None):
                extra = dict(extra or {})
                if variant != 'valid':
                    extra['call_kwargs'] = {'raw_body': VARIANTS[variant].decode()}
                    extra['body_variant'] = variant
                return mk_replay(table, method, full, body if variant == 'valid' else None, c, expected,
                                 {'status': status, 'sql_statements': nsql, 'first_sql': first_sql,
                                  'dump_changed': changed, 'stored_data_in_answer': leak}, extra)
            case = '%s:%s' % (label, c[0]) + ('' if variant == 'valid' else ':' + variant)
            # (1) authentication
            if c[1] is None:
                want = 200 if cpath == '/' else 401
                if status != want:
                    vio('monitor', 'no-token', 'no-token-not-401:%s' % label,
                        'request without credentials answered %s, expected %s' % (status, want), rp(want))
            elif status == 401:
                vio('monitor', 'token-401', 'token-refused-401:%s' % case, 'request with a token answered 401', rp('not 401'))
            # (2) a refusal has no effect and shows nothing
            if status in (401, 403):
                if nsql:
                    vio('monitor', 'sql-before-refusal', 'sql-before-%s:%s' % (status, label),
                        '%d SQL statement(s) issued before the %s answer, first: %s' % (nsql, status, first_sql), rp('no SQL statement'))
                if changed:
                    vio('monitor', 'refusal-changed-db', 'refused-but-changed:%s' % label, 'database changed by a refused request', rp('dump unchanged'))
                if leak:
                    vio('monitor', 'refusal-leaks', 'refused-but-leaks:%s' % label, 'stored data %s in a %s answer' % (leak, status), rp('no stored data'))
            # (3) authorisation against the text of the property
            if c[1] is not None and exp is False:
                everybody = set(by_req[(ki, vi)][j] for j in by_req[(ki, vi)] if cl[j][1] is not None)
                uniform = status in (404, 405, 406, 415) and everybody == {status}
                sig = None
                if 200 <= status < 300:
                    sig = 'unauthorised-success:%s' % case
                elif status != 403 and not uniform:
                    sig = 'unauthorised-not-403:%s' % case
                if sig:
                    vio('monitor', 'unauthorised', sig,
                        'caller %s (roles %s, project %s) is not admitted to %s under policy %s but got %s'
                        % (c[0], sorted(c[3]), c[4], label, tname, status), rp(403))
                if changed:
                    vio('monitor', 'unauthorised-changed-db', 'unauthorised-changed:%s' % case, 'database changed by an unauthorised caller', rp('dump unchanged'))
                if nsql and not (200 <= status < 300):
                    vio('monitor', 'unauthorised-sql', 'unauthorised-sql:%s' % case,
                        '%d SQL statement(s) issued for an unauthorised caller (status %s), first: %s' % (nsql, status, first_sql), rp('no SQL statement'))
                if leak:
                    vio('monitor', 'unauthorised-leak', 'unauthorised-leak:%s' % case, 'stored data %s shown to an unauthorised caller' % leak, rp('no stored data'))
            if c[1] is not None and exp is True and status in (401, 403):
                vio('monitor', 'authorised-refused', 'authorised-refused:%s' % case,
                    'caller %s (roles %s, project %s) is admitted to %s under policy %s but got %s' % (c[0], sorted(c[3]), c[4], label, tname, status),
                    rp('not 401/403'))
            if exp is True and variant == 'valid' and not (200 <= status < 300) and status not in (401, 403):
                chk.tally('admitted_but_not_2xx', '%s -> %s' % (label, status))
            # (4) correspondence with the Lean model
            if pred is not None:
                pv = pred.get((tname, method, path))
                if pv is None or len(pv) != len(cl):
                    vio('correspondence', 'missing', 'no-prediction:%s:%s' % (tname, label), 'the Lean model has no row for this cell (%r)' % (pv,), rp(None))
                else:
                    n_corr += 1
                    if pv[ci] != obs:
                        vio('correspondence', 'verdict', 'lean-verdict:%s' % case,
                            'Lean model predicts %s, application answered %s (policy %s)' % (pv[ci], status, tname),
                            rp(pv[ci], {'correspondence': 'Placement.Policy.Pipeline.respond over Placement.Gen.Policies'}))
            if len(chk.cov['samples']) < 6 and (ki * 7 + ci * 3 + len(tname)) % 97 == 0:
                chk.sample({'policy_file': {} if rule is None else {rule: val}, 'request': '%s %s' % (method, full), 'caller': c[0],
                            'token': c[1], 'headers': c[2], 'status': status, 'sql_statements': nsql,
                            'text_oracle': exp, 'lean': pred.get((tname, method, path), [None] * len(cl))[ci] if pred else None})
    if pred is not None:
        extra = set(k[0] for k in pred) - set(t[0] for t in tbls)
        if extra:
            vio('correspondence', 'tables', 'lean-extra-tables', 'Lean tables name rules the application does not register: %s' % sorted(extra)[:5], {'extra': sorted(extra)})
    for s in sorted(suspected):
        chk.notes.append('suspected defect registered: %s' % s)
    sane = chk.cov.get('admitted_but_not_2xx')
    if sane and chk.lean.get('ok'):
        chk.notes.append('admitted callers received non-2xx answers (fixtures or handlers broken?): %s' % sane)
    chk.cov['exhaustive'] = True
    chk.cov['rule'] = ('exhaustive product: every (route, method) of placement.handler.ROUTE_DECLARATIONS [%d] x caller classes [%d: no token; '
                       'no roles / reader / member / admin / service in the own and in another project; admin token of the middleware; '
                       'upper-case role; system- and domain-scoped tokens] x policy files [%d: none, and every registered rule [%d] '
                       'replaced by @ and by !], plus %d gate requests (405/415/406/404-by-version/unknown path) x callers under the '
                       'default policy; thorough tier: every request with a body also with the body {} and with malformed JSON (an unauthorised '
                       'caller must still get 403, not 400).  distinct = (route, method, caller class, {default, own rule @/!, other rule @/!}, status).'
                       % (len(keys), len(cl), len(tbls), len(rules), len(gates)))
    chk.cov['routes_x_methods'] = len(keys)
    chk.cov['caller_classes'] = len(cl)
    chk.cov['policy_tables'] = len(tbls)
    chk.cov['gate_requests'] = len(gates)
    chk.cov['body_variants'] = variants
    chk.cov['cells_compared_with_lean'] = n_corr
    chk.cov['traces_validated_against_impl'] = n_corr
    chk.cov['suspected_defects'] = sorted(suspected)
    chk.assumptions += [
        'auth_strategy=noauth2: NoAuthMiddleware + PlacementKeystoneContext are exercised, keystonemiddleware token validation is not',
        'oslo.policy evaluates check strings as Model/Policy.lean does (cross-checked on every cell of the matrix)',
        'policy overrides are single-rule policy files replacing a registered rule by @ or !',
        'a Name literal n!"s" denotes the string s (injective base-256 code computed at elaboration time)',
    ]


def _check_gates(chk, vio, gates, cl, res):
    by = {}
    for gi, ci, status, nsql, first_sql, changed, leak in res:
        by.setdefault(gi, {})[ci] = (status, nsql, first_sql, changed, leak)
    for gi, (label, method, path, kw, expect) in enumerate(gates):
        auth_status = set(by[gi][ci][0] for ci in by[gi] if cl[ci][1] is not None)
        for ci, (status, nsql, first_sql, changed, leak) in by[gi].items():
            c = cl[ci]
            chk.evaluation(['gate', label, c[0]], nontrivial=False)
            chk._distinct.add(('gate', label, c[0], status))
            chk.tally('by_status', str(status))
            kwj = {k: (v.decode() if isinstance(v, bytes) else v) for k, v in kw.items()}
            rp = mk_replay(('default', None, None), method, path, kwj.get('body'), c,
                           '403, or the same 404/405/406/415 for every caller' if label.startswith('framing:') else expect,
                           {'status': status, 'sql_statements': nsql, 'first_sql': first_sql, 'dump_changed': changed},
                           {'call_kwargs': kwj})
            if c[1] is None:
                if status != 401:
                    vio('monitor', 'no-token', 'no-token-not-401:gate %s' % label, 'request without credentials answered %s' % status, rp)
            elif label.startswith('framing:'):
                admitted = text_oracle(('default', None, None), (path, method), c, {})
                if not admitted and status != 403 and status not in (404, 405, 406, 415):
                    sig = '%s-before-authorisation:%s' % (status, label.split(':', 1)[1])
                    vio('monitor', 'framing', sig,
                        'caller %s is not admitted to %s %s but the answer is %s, not 403 (%s)'
                        % (c[0], method, path, status,
                           'listed in SUSPECTED_DEFECTS: behaviour of the unchanged tree' if sig in SUSPECTED_DEFECTS else 'new'), rp)
            else:
                # either refused as unauthorised, or rejected like for everybody else
                if not (status == 403 or (status in (404, 405, 406, 415) and auth_status <= {status, 403})):
                    vio('monitor', 'gate', 'gate-status:%s:%s' % (label, c[0]),
                        'gate request answered %s for %s (answers over all callers: %s)' % (status, c[0], sorted(auth_status)), rp)
                if status != expect and status != 403:
                    chk.tally('gate_unexpected', '%s -> %s' % (label, status))
            if nsql and status in (401, 403, 404, 405, 406, 415) and not label.startswith('404 unknown subpath'):
                vio('monitor', 'gate-sql', 'gate-sql:%s' % label, '%d SQL statement(s) before a %s answer, first: %s' % (nsql, status, first_sql), rp)
            if changed:
                vio('monitor', 'gate-changed', 'gate-changed:%s' % label, 'database changed by a rejected request', rp)


# ------------------------------------------------------------------------------------------------
def replay(doc):
    """./check replay <file>: re-run one cell of the matrix against the real code."""
    rp = doc['replay']
    scratch = tempfile.mkdtemp(prefix='c16r_', dir='/dev/shm' if os.path.isdir('/dev/shm') else None)
    try:
        _worker_init(scratch)
        if rp.get('type') == 'c16-policy-edits':
            _k, _t, (fresh, seen), _u = _run_reload(('reload', (rp['rule'], rp['other_rule'], rp['routes']), None))
            bad = [i for i, n in enumerate(RELOAD_SEQ) if seen[i] != fresh[n]]
            print('  steps whose decisions differ from those of a freshly started service: %s' % bad)
            print('REPRODUCED' if bad else 'not reproduced')
            return 1 if bad else 0
        pf = rp.get('policy_file') or {}
        (rule, val) = list(pf.items())[0] if pf else (None, None)
        _set_policy(rule, val)
        rq = rp['request']
        kw = dict(rp.get('call_kwargs') or {})
        if 'raw_body' in kw:
            kw['raw_body'] = kw['raw_body'].encode()
        kw.setdefault('body', rq.get('body'))
        caller = (rp.get('caller_class'), rq.get('token'), rq.get('headers') or {})
        status, nsql, first, changed, leak = _one(rq['method'], rq['path'], kw, caller)
        obs = {'status': status, 'sql_statements': nsql, 'first_sql': first, 'dump_changed': changed, 'stored_data_in_answer': leak}
        print('  policy file %s; %s %s as %s' % (json.dumps(pf), rq['method'], rq['path'], rp.get('caller_class')))
        print('  expected: %s' % (rp.get('expected'),))
        print('  recorded: %s' % json.dumps(rp.get('observed')))
        print('  now:      %s' % json.dumps(obs))
        rec = rp.get('observed') or {}
        same = all(obs.get(k) == rec.get(k) for k in ('status', 'sql_statements', 'dump_changed') if k in rec)
        print('REPRODUCED' if same else 'not reproduced')
        return 1 if same else 0
    finally:
        shutil.rmtree(scratch, ignore_errors=True)
