from harness import ppool
import json
import multiprocessing as mp
import os
import random
import traceback

import os_resource_classes as orc
import os_traits

from harness import corpus, faults, monitors, ops
from harness.app import core
from harness.model import Model, diff_dumps, load_dump

META = {
    'property_id': 'C18', 'lean_module': 'Placement.Props.C18', 'category': 'proof',
    'text': 'Lean 4 theorems: every transaction of every request program preserves the crash invariant (capacity safety, '
            'referential integrity allowing a consumer without allocations, forest and roots), hence every transaction '
            'prefix of every request does (Prog.runPrefix, all states, all requests), and the residue of a prefix is '
            'auxiliary; tied to the code by killing the real request at EVERY SQL statement and commit of a write corpus, '
            'checking the invariants on the surviving tables and comparing them with the model\'s prefix semantics.',
    'level_note': 'trusted: Lean kernel; crash = BaseException at statement/commit boundary + database rollback of the transaction in flight; '
                  'corpus is finite (every write kind x several start states), enumeration of its crash points is exhaustive.',
    'technique': 'Lean 4 proof (per-transaction invariant, induction over transaction prefixes) + exhaustive crash-point injection on the real code',
    'design_ref': 'DESIGN.md section 5, C18',
}

_APP = _INJ = _MODEL = None


def _init():
    global _APP, _INJ, _MODEL
    from harness.sched import SchedApp
    import atexit
    _APP = SchedApp()
    atexit.register(_APP.close)
    # pool workers leave through os._exit: only multiprocessing's own finalizers run there
    from multiprocessing import util as _mpu
    _mpu.Finalize(None, _APP.close, exitpriority=10)
    _INJ = faults.Injector(_APP)
    _MODEL = Model()


def strip_idle_consumers(d):
    """a consumer without allocations is an allowed crash residue"""
    holders = {a[1] for a in d['allocs']}
    c = core(d)
    c['consumers'] = {u: v for u, v in d['consumers'].items() if u in holders}
    return c


def crash_invariants(pre, post, d):
    out = []
    rec = monitors.Record({'op': 'crash'}, None, pre, d, 0)
    # C01: nothing over-committed that neither the state before nor the completed request has
    oc = monitors.over_committed(d) - monitors.over_committed(pre) - monitors.over_committed(post)
    if oc:
        out.append(('c18:overcommitted-after-crash', str(sorted(oc))))
    # C08 with the consumer-without-allocations allowance
    im = monitors.inv_map(d)
    for (rp, c, rc, used) in d['allocs']:
        if rp not in d['rps'] or (rp, rc) not in im or c not in d['consumers']:
            out.append(('c18:dangling-allocation-after-crash', str([rp, c, rc, used])))
    for r in d['invs']:
        if r[0] not in d['rps'] or str(r[1]).startswith('?'):
            out.append(('c18:dangling-inventory-after-crash', str(r)))
    for x in d['rp_traits'] + d['rp_aggs']:
        if x[0] not in d['rps'] or str(x[1]).startswith('?'):
            out.append(('c18:dangling-association-after-crash', str(x)))
    for e in monitors.forest_errors(d['rps']):
        out.append(('c18:forest-after-crash', e))
    # wholly present or wholly absent
    s = strip_idle_consumers(d)
    if s != strip_idle_consumers(pre) and s != strip_idle_consumers(post):
        tables = sorted(k for k in s if s[k] != strip_idle_consumers(pre)[k])
        out.append(('c18:partial-effect-after-crash:%s' % '+'.join(tables), 'surviving core tables equal neither the state before nor after the request'))
    return out


def case(args):
    seed, = args
    rng = random.Random(seed)
    out = {'seed': seed, 'violations': [], 'points': 0, 'requests': 0, 'by_kind': {}, 'samples': []}
    try:
        _APP.reset()
        g = corpus.build_state(_APP, rng)
        reqs = corpus.requests_for(_APP, rng, g)
        pre = _APP.dump()
        snap = _APP.snapshot()
        for (op, st0) in reqs:
            _APP.restore(snap)
            _INJ.reset()
            r = ops.apply_real(_APP, op)
            n = len(_INJ.events)
            events = list(_INJ.events)
            post = _APP.dump()
            out['requests'] += 1
            k0 = '%s %s' % (op['op'], r.status)
            out['by_kind'][k0] = out['by_kind'].get(k0, 0) + 1
            for k in range(n + 1):
                _APP.restore(snap)
                _INJ.reset((k, 'crash') if k < n else None)
                crashed = False
                try:
                    ops.apply_real(_APP, op)
                except faults.Crash:
                    crashed = True
                _INJ.armed = None
                d = _APP.dump()
                out['points'] += 1
                vio = [{'kind': 'monitor', 'signature': s, 'detail': t} for s, t in crash_invariants(pre, post, d)]
                # model: state after the writer transactions that committed before the crash
                jw = _INJ.completed_writers()
                _MODEL.reset(list(orc.STANDARDS), sorted(os_traits.get_traits()),
                             _APP.conf.placement.incomplete_consumer_project_id, _APP.conf.placement.incomplete_consumer_user_id)
                load_dump(_MODEL, pre)
                mr = _MODEL.send({'cmd': 'prefixw', 'op': op, 'j': jw})
                if 'error' in mr:
                    vio.append({'kind': 'correspondence', 'signature': 'driver-error', 'detail': mr['error']})
                else:
                    dd = diff_dumps(d, _MODEL.dump(), ['rps', 'invs', 'allocs', 'consumers', 'rp_traits', 'rp_aggs'])
                    if dd:
                        vio.append({'kind': 'correspondence', 'signature': 'prefix-state:%s:%s' % (op['op'], '+'.join(x['table'] for x in dd)),
                                    'detail': 'after %d committed writer transactions: %s' % (jw, json.dumps(dd)[:400])})
                for x in vio:
                    x['replay'] = {'type': 'crash', 'module': 'harness.props.c18', 'start_dump': pre, 'op': op, 'crash_event': k,
                                   'events': [e[0] + (':' + e[1] + '.' + e[2] if e[0] == 'stmt' else '') for e in events],
                                   'crashed': crashed, 'observed': x['detail'], 'surviving': d}
                    out['violations'].append(x)
            if len(out['samples']) < 1:
                out['samples'].append({'op': op, 'events': n, 'status': r.status})
    except BaseException:      # incl. an escaped RequestHang: a dead pool worker would hang the check
        out['error'] = traceback.format_exc()
    return out


def _is_noop_writer(t):
    # writer transactions that only SELECT (e.g. DELETE .../traits with nothing to delete) are still model stages
    return False


def replay(doc):
    from harness import stateload
    _init()
    rp = doc['replay']
    stateload.load_into_app(_APP, rp['start_dump'])
    pre = _APP.dump()
    snap = _APP.snapshot()
    ops.apply_real(_APP, rp['op'])
    post = _APP.dump()
    _APP.restore(snap)
    _INJ.reset((rp['crash_event'], 'crash'))
    try:
        ops.apply_real(_APP, rp['op'])
    except faults.Crash:
        pass
    _INJ.armed = None
    d = _APP.dump()
    hit = False
    for s, t in crash_invariants(pre, post, d):
        print('  ', s, t)
        hit = hit or s == doc.get('signature')
    print('REPRODUCED' if hit else 'not reproduced')
    return 1 if hit else 0


def run(chk):
    if not getattr(chk, 'no_lean', False):
        chk.lean_stage(META['lean_module'], exe=True)
    n = 16 if chk.tier == 'quick' else 160
    ctx = mp.get_context('fork')
    errors = []
    with ppool.Pool(ctx, min(16, os.cpu_count() or 4), initializer=_init) as pool:
        for res in pool.imap_unordered(case, [(chk.seed * 104729 + i,) for i in range(n)]):
            if 'error' in res:
                errors.append(res['error'])
                continue
            chk.cov['evaluations'] += res['points']
            chk.count('crash_points', res['points'])
            chk.count('requests', res['requests'])
            for k, v in res['by_kind'].items():
                chk.tally('requests_by_kind_status', k, v)
                chk._distinct.add(k)
            for s in res['samples']:
                chk.sample(s)
            for x in res['violations']:
                chk.violation(x['kind'], x['signature'], x.get('detail', ''), x['replay'])
    if errors:
        raise RuntimeError('worker errors:\n' + errors[0])
    chk.cov['exhaustive'] = True
    chk.cov['rule'] = ('corpus: %d start states built through the API x one request of each of 24 write kinds; for each request EVERY '
                       'crash point is enumerated (before each SQL statement incl. BEGIN, before each COMMIT, after the last one); '
                       'distinct = (operation, fault-free status) pairs' % n)
