from harness import conc

META = {
    'property_id': 'C06', 'lean_module': 'Placement.Props.C06', 'category': 'proof',
    'text': 'Lean 4 theorems over the scheduled semantics of the allocation-writing transaction programs: a write commits only '
            'against the consumer generation it carries, among concurrent writes with the same generation of an EXISTING consumer '
            'at most one succeeds (all schedules, any number of requests); for generation null (consumer must not exist) the '
            'unchanged code adopts a concurrently created consumer - proved by a concrete schedule witness and recorded as a '
            'known finding; tied to the code by exhaustive interleavings of request pairs on the real application.',
    'level_note': 'trusted: Lean kernel; scheduler = serializable DBMS at transaction granularity; theorem for generation null is _partial (KNOWN_FINDINGS.json).',
    'technique': 'Lean 4 proof (invariant over all schedules, witness by decide) + exhaustive interleaving correspondence on the real code',
    'design_ref': 'DESIGN.md section 5, C06',
}

PROFILE = {'n_rps': 2, 'setup_ops': 18, 'existing_consumer_bias': 0.7, 'empty_bias': 0.3,
           'setup_weights': {'rp_delete': 0, 'alloc_put': 30, 'alloc_delete': 1, 'rc_rename': 0, 'rc_delete': 0, 'trait_delete': 0,
                             'rp_traits_set': 0, 'aggs_set': 0, 'rp_update': 0},
           'race_kinds': {'alloc_put': 8, 'alloc_post': 4, 'reshape': 1},
           'p_three': 0.05, 'p_move': 0.6, 'p_two_consumers': 0.3}


def run(chk):
    if not getattr(chk, 'no_lean', False):
        chk.lean_stage(META['lean_module'], exe=True)
    n = 112 if chk.tier == 'quick' else 800
    conc.run_races(chk, ['C06'], n, 120 if chk.tier == 'quick' else 600, PROFILE)
    chk.cov['rule'] = ('start states built through the API; 2 (5%: 3) PUT/POST allocations or reshaper requests touching a common consumer, '
                       'new or existing, generations null/current/stale, at microversions >= 1.28 mostly; every canonical interleaving of '
                       'their transactions on the real application and in the Lean model; distinct = kinds of races')
