from harness import hist

META = {
    'property_id': 'C12', 'lean_module': 'Placement.Props.C12', 'category': 'proof',
    'text': 'Lean 4 theorems: "consumer row exists iff it holds an allocation" is preserved by every completed request of the '
            'model outside two recorded defect patterns (proved to break it by concrete witnesses), creation/update/removal '
            'facts; tied to the code by differential histories over all four microversion bands; monitor on the real tables.',
    'level_note': 'trusted: Lean kernel; correspondence sampled; theorem is _partial exactly on the patterns listed in KNOWN_FINDINGS.json.',
    'technique': 'Lean 4 proof (invariant by induction over requests, witnesses by decide) + model/implementation correspondence',
    'design_ref': 'DESIGN.md section 5, C12',
}

PROFILE = {'weights': {'alloc_put': 30, 'alloc_post': 16, 'alloc_delete': 10, 'reshape': 8, 'rp_update': 1, 'rp_traits_set': 1,
                       'aggs_set': 1, 'trait_put': 0, 'trait_delete': 0, 'rc_rename': 0},
           'n_rps': 4, 'footprint': ['rps', 'invs', 'allocs', 'consumers', 'projects', 'users', 'ctypes']}


def run(chk):
    if not getattr(chk, 'no_lean', False):
        chk.lean_stage(META['lean_module'], exe=True)
    n = 400 if chk.tier == 'quick' else 8000
    hist.run_histories(chk, n, 40, PROFILE, ['C12'])
    chk.cov['rule'] = ('random histories of 40 allocation-writing and -deleting requests over 4 consumers at microversions below 1.8, '
                       '1.8-1.27, 1.28-1.37 and >= 1.38; distinct = (operation, status) pairs')
