from harness import conc, hist

META = {
    'property_id': 'C12', 'lean_module': 'Placement.Props.C12', 'category': 'proof',
    'text': 'Lean 4 theorems: "consumer row exists iff it holds an allocation" is an invariant of every completed request of the '
            'handler model (all states, all well-formed requests; two defects of the original code were repaired by fix: commits '
            'and the model mirrors the repaired code), creation/update/removal/re-creation facts; tied to the code by '
            'differential histories over all four microversion bands; monitor on the real tables; beyond sequences, every '
            'interleaving of pairs of allocation writes on a common consumer on the real application with the invariant evaluated '
            'on the final state; the service runs with two distinct placeholder ids.',
    'level_note': 'trusted: Lean kernel; correspondence sampled; requests well-formed as JSON objects allow (no duplicate consumer / (provider, class) keys).',
    'technique': 'Lean 4 proof (invariant by induction over requests) + model/implementation correspondence',
    'design_ref': 'DESIGN.md section 5, C12',
}

PROFILE = {'weights': {'alloc_put': 30, 'alloc_post': 16, 'alloc_delete': 10, 'reshape': 8, 'rp_update': 1, 'rp_traits_set': 1,
                       'aggs_set': 1, 'trait_put': 0, 'trait_delete': 0, 'rc_rename': 0},
           'n_rps': 4, 'footprint': ['rps', 'invs', 'allocs', 'consumers', 'projects', 'users', 'ctypes']}

RACES = {'n_rps': 2, 'setup_ops': 18, 'existing_consumer_bias': 0.5, 'empty_bias': 0.3, 'model': False,
         'setup_weights': {'rp_delete': 0, 'alloc_put': 30, 'alloc_delete': 1, 'rc_rename': 0, 'rc_delete': 0, 'trait_delete': 0,
                           'rp_traits_set': 0, 'aggs_set': 0, 'rp_update': 0},
         'race_kinds': {'alloc_put': 8, 'alloc_post': 3, 'reshape': 1, 'alloc_delete': 4},
         'p_three': 0.0}


def run(chk):
    if not getattr(chk, 'no_lean', False):
        chk.lean_stage(META['lean_module'], exe=True)
    n = 400 if chk.tier == 'quick' else 8000
    hist.run_histories(chk, n, 40, PROFILE, ['C12'])
    # beyond sequences: two in-flight allocation writes touching one consumer, every interleaving at transaction
    # granularity on the real application; "consumer record iff allocations" evaluated on the state each schedule ends in
    conc.run_races(chk, ['C12'], 96 if chk.tier == 'quick' else 2000, 120, RACES)
    chk.cov['rule'] = ('random histories of 40 allocation-writing and -deleting requests over 4 consumers at microversions below 1.8, '
                       '1.8-1.27, 1.28-1.37 and >= 1.38; distinct = (operation, status) pairs; plus every interleaving of pairs of allocation writes on a common consumer')
