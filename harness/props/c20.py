"""C20  limit and randomisation only select from the full candidate set.

Lean stage: `Placement.Props.C20` (`limit_results` with `random.sample` / `random.shuffle` abstracted by their contracts:
length min(N, M), subset of the full list, distinct, summaries pruned by root still cover the kept requests,
permutation without a cutting limit, prefix with randomisation off).
Exploration: for states and queries of the C03 generator the unlimited response (M requests) is followed by every
limit 1 .. M+1 under both settings of [placement]randomize_allocation_candidates (worker processes are dedicated to one
setting) and several PRNG seeds; a handful of cases is repeated in fresh interpreters with different PYTHONHASHSEED."""
from harness import ppool
import hashlib
import json
import multiprocessing as mp
import os
import random
import subprocess
import sys
import tempfile
import traceback

from harness import cands
from harness.common import ROOT
from harness.props import c03

META = {
    'property_id': 'C20', 'lean_module': 'Placement.Props.C20', 'category': 'proof',
    'text': 'Lean 4 theorems about the model of RequestWideSearchContext.limit_results for every list, limit and every '
            'implementation of random.sample / random.shuffle meeting their contracts: min(N, M) requests, all from the '
            'unlimited list, distinct, summaries (pruned by root) cover the kept requests and add nothing, permutation '
            'without a cutting limit, prefix of the unlimited order with randomisation off.  On the real service: every '
            'limit 1..M+1 under both settings and several seeds; identical repeated responses with randomisation off.  The two tests of '
            'limit_results are generated (Gen.limitApplies, shuffleWhenUnlimited) and proved to be the model\'s; the translator refuses '
            'to run when the list expressions of the function are not the ones the model was written for.',
    'level_note': 'trusted: Lean kernel, the contracts of random.sample / random.shuffle.  The order of the unlimited list '
                  'is a parameter of the theorems; its determinism is observed within one process and across interpreters '
                  'with different PYTHONHASHSEED (finding K).',
    'technique': 'Lean 4 proof over an abstract selection + exhaustive limits x settings x seeds on the real service',
    'design_ref': 'DESIGN.md section 5, C20',
}

SIG_K = 'c20:limited-selection-depends-on-PYTHONHASHSEED:randomization-off'
MAX_M = 14
SEEDS = 3


def ask(a, q, limit=None):
    url, ver = cands.render(q, limit)
    r = a.call('GET', url, version=ver)
    return url, ver, r


def reqs(r, with_maps):
    return [cands.canon_alloc_request(x, with_maps) for x in r.json['allocation_requests']]


def named(ar_canon):
    s = set(rp for rp, _, _ in ar_canon[0])
    return s


def check_limited(q, N, U, Uset, usums, r, randomize, out_probs, url):
    with_maps = q['mv'] >= 34
    if r.status != 200:
        out_probs.append(('status-%s-with-limit' % r.status, '%s -> %s' % (url, r.status)))
        return None
    L = reqs(r, with_maps)
    M = len(U)
    if len(L) != min(N, M):
        out_probs.append(('length', '%s: %d requests, min(N=%d, M=%d) expected' % (url, len(L), N, M)))
    if with_maps and len(set(L)) != len(L):
        out_probs.append(('not-distinct', url))
    for x in L:
        if x not in Uset:
            out_probs.append(('not-in-unlimited-result', '%s: %s' % (url, json.dumps(cands.show(x)))))
            break
    sums = r.json['provider_summaries']
    for x in L:
        miss = [p for p in named(x) if p not in sums]
        if miss:
            out_probs.append(('summary-missing', '%s: no summary for %s' % (url, miss)))
            break
    for u, e in sums.items():
        if u not in usums:
            out_probs.append(('summary-not-in-unlimited-response', '%s: %s' % (url, u)))
            break
        if e != usums[u]:
            out_probs.append(('summary-differs-from-unlimited-response', '%s: %s' % (url, u)))
            break
    return L


def limits_for(rng, M):
    if M <= MAX_M:
        return list(range(1, M + 2))
    return sorted(set([1, 2, M - 1, M, M + 1] + rng.sample(range(3, M - 1), 6)))


def examine(a, q, randomize, rng):
    """-> (info, problems[(sig, detail)])"""
    with_maps = q['mv'] >= 34
    probs = []
    url, ver, r = ask(a, q)
    info = {'url': url, 'version': ver, 'status': r.status, 'M': 0, 'requests': 1}
    if r.status != 200:
        return info, probs
    U = reqs(r, with_maps)
    Uset = set(U)
    usums = r.json['provider_summaries']
    M = len(U)
    info['M'] = M
    if M == 0:
        _, _, r1 = ask(a, q, 1)
        info['requests'] += 1
        if r1.status != 200 or r1.json['allocation_requests']:
            probs.append(('length', 'limit=1 on an empty result'))
        return info, probs
    if not randomize:
        # identical request, unchanged state -> identical ordered list
        _, _, r2 = ask(a, q)
        info['requests'] += 1
        if r2.status != 200 or reqs(r2, with_maps) != U:
            probs.append(('repeat-differs:unlimited', url))
        for N in limits_for(rng, M):
            u1, _, ra = ask(a, q, N)
            L = check_limited(q, N, U, Uset, usums, ra, False, probs, u1)
            _, _, rb = ask(a, q, N)
            info['requests'] += 2
            if L is not None and (rb.status != 200 or reqs(rb, with_maps) != L):
                probs.append(('repeat-differs:limited', u1))
            if L is not None and L != U[:N]:
                probs.append(('corr:not-a-prefix-of-the-unlimited-order', u1))
    else:
        for s in range(SEEDS):
            random.seed(1000 * s + 17)
            _, _, r2 = ask(a, q)
            info['requests'] += 1
            if r2.status != 200:
                probs.append(('status-%s-on-repeat' % r2.status, url))
                continue
            P = reqs(r2, with_maps)
            if sorted(P) != sorted(U):
                probs.append(('unlimited-not-a-permutation', url))
            if r2.json['provider_summaries'] != usums:
                probs.append(('summaries-differ-between-permutations', url))
            for N in limits_for(rng, M):
                random.seed(1000 * s + N)
                u1, _, ra = ask(a, q, N)
                info['requests'] += 1
                check_limited(q, N, U, Uset, usums, ra, True, probs, u1)
    return info, probs


def case(args):
    seed, nq, randomize = args
    rng = random.Random(seed)
    out = {'seed': seed, 'violations': [], 'evals': 0, 'requests': 0, 'M': {}, 'distinct': [], 'samples': [],
           'probe': []}
    try:
        a = cands.app()
        spec = cands.gen_state(rng)
        cands.build_state(a, spec)
        dump = a.dump()
        v = cands.View(dump)
        for k in range(nq):
            mv = rng.choice([39, 39, 39, 36, 34, 29, 25, 17, 16])
            r_ = rng.random()
            if r_ < 0.55:
                # few filters, small amounts: many candidates to select from
                q = cands.gen_query_witness(rng, v, mv=mv, dens=rng.choice([0.0, 0.0, 0.4]), small=True)
            elif r_ < 0.9:
                q = cands.gen_query_witness(rng, v, mv=mv)
            else:
                q = cands.gen_query(rng, v, mv=mv)
            info, probs = examine(a, q, randomize, rng)
            out['evals'] += 1
            out['requests'] += info['requests']
            M = info['M']
            b = '0' if M == 0 else ('1' if M == 1 else ('2-5' if M <= 5 else ('6-14' if M <= 14 else '>14')))
            out['M'][b] = out['M'].get(b, 0) + 1
            if M >= 2:
                out['distinct'].append(hashlib.md5(json.dumps(
                    [dump['invs'], dump['allocs'], dump['rp_traits'], dump['rp_aggs'], sorted(dump['rps'].items()),
                     cands.lean_query(q), randomize], sort_keys=True).encode()).hexdigest())
                if not out['samples']:
                    out['samples'].append({'url': info['url'], 'version': info['version'], 'M': M,
                                           'randomize': randomize, 'requests_sent': info['requests']})
                if not randomize and M >= 3 and len(out['probe']) < 1:
                    out['probe'].append({'dump': dump, 'query': q, 'M': M})
            seen = set()
            for sig, detail in probs:
                kind = 'correspondence' if sig.startswith('corr:') else 'monitor'
                full = 'c20:%s:randomize-%s' % (sig.replace('corr:', ''), 'on' if randomize else 'off')
                if full in seen:
                    continue
                seen.add(full)
                out['violations'].append({
                    'kind': kind, 'signature': full, 'detail': detail,
                    'replay': {'type': 'state+query', 'module': 'harness.props.c20', 'dump': dump, 'query': q,
                               'randomize': randomize, 'method': 'GET', 'url': info['url'], 'version': info['version'],
                               'expected': 'limit=N returns min(N, M) distinct requests of the unlimited result with summaries '
                                           'covering them; identical repeats with randomisation off',
                               'observed': detail}})
    except BaseException:      # incl. an escaped RequestHang: a dead pool worker would hang the check
        out['error'] = traceback.format_exc()
    return out


def _init(randomize):
    cands.init_worker(overrides={('placement', 'randomize_allocation_candidates'): randomize}, use_model=False)


def _probe_one(c):
    with tempfile.NamedTemporaryFile('w', suffix='.json', dir='/dev/shm', delete=False) as f:
        json.dump(c, f)
        path = f.name
    try:
        procs = []
        for hs in ('1', '2', '3'):
            env = dict(os.environ, PYTHONHASHSEED=hs)
            procs.append(subprocess.Popen([sys.executable, '-m', 'harness.props.c20', 'probe', path],
                                          stdout=subprocess.PIPE, stderr=subprocess.PIPE, text=True, cwd=ROOT, env=env))
        outs = []
        for p in procs:
            so, se = p.communicate(timeout=300)
            if p.returncode != 0:
                raise RuntimeError('probe failed: %s' % se[-400:])
            outs.append(json.loads(so.strip().split('\n')[-1]))
        return outs
    finally:
        os.unlink(path)


def hashseed_probe(cases):
    """repeat limited requests in fresh interpreters with different PYTHONHASHSEED (randomisation off)"""
    from concurrent.futures import ThreadPoolExecutor
    with ThreadPoolExecutor(max_workers=5) as ex:
        return list(zip(cases, ex.map(_probe_one, cases)))


def run(chk):
    if not getattr(chk, 'no_lean', False):
        chk.lean_stage(META['lean_module'], exe=True)
    n_states, nq, n_probe = (400, 3, 5) if chk.tier == 'quick' else (8000, 3, 40)
    procs = min(16, os.cpu_count() or 4)
    ctx = mp.get_context('fork')
    errors = []
    probes = []
    for randomize in (False, True):
        seeds = [chk.seed * 1000003 + i + (500000 if randomize else 0) for i in range(n_states)]
        with ppool.Pool(ctx, procs, initializer=_init, initargs=(randomize,)) as pool:
            for res in pool.imap_unordered(case, [(s, nq, randomize) for s in seeds], chunksize=2):
                if 'error' in res:
                    errors.append(res['error'])
                    continue
                chk.cov['evaluations'] += res['evals']
                chk.count('states', 1)
                chk.count('requests_sent', res['requests'])
                chk.count('queries_randomize_%s' % ('on' if randomize else 'off'), res['evals'])
                for h in res['distinct']:
                    chk._distinct.add(h)
                for k, n in res['M'].items():
                    chk.tally('unlimited_result_size_M', k, n)
                for s in res['samples']:
                    chk.sample(s)
                if len(probes) < n_probe:
                    probes += res['probe']
                for x in res['violations']:
                    chk.violation(x['kind'], x['signature'], x['detail'], x['replay'])
    if errors:
        if len(errors) > max(3, n_states // 50):
            raise RuntimeError('worker errors (%d):\n%s' % (len(errors), errors[0]))
        chk.notes.append('%d state(s) skipped after a worker error: %s' % (len(errors), errors[0][-300:]))
    # the same requests in fresh interpreters with different hash seeds
    differ = 0
    for c, outs in hashseed_probe(probes[:n_probe]):
        chk.count('hashseed_probes', 1)
        if any(o != outs[0] for o in outs[1:]):
            differ += 1
            url, ver = cands.render(c['query'], 1)
            chk.violation('monitor', SIG_K,
                          'identical limited requests on identical state return different lists in interpreters started '
                          'with PYTHONHASHSEED=1,2,3: %s' % url,
                          {'type': 'state+query', 'module': 'harness.props.c20', 'hashseed_probe': True, 'dump': c['dump'],
                           'query': c['query'], 'method': 'GET', 'url': url, 'version': ver,
                           'expected': 'the identical ordered list (randomisation off)',
                           'observed': {'PYTHONHASHSEED=%d' % (i + 1): o for i, o in enumerate(outs)}})
    chk.cov['hashseed_probes_differing'] = differ
    chk.cov['rule'] = (
        'states/queries of the C03 generator (mostly built around a witness); per query: the unlimited response, then every '
        'limit 1..M+1 (M <= 14; else 11 limits incl. 1, M-1, M, M+1); randomisation off: every request sent twice, lists '
        'compared in order, limited list compared with the prefix of the unlimited one; randomisation on: 3 PRNG seeds, '
        'unlimited = permutation, limited = subset; evaluation = one (state, query, setting); distinct_nontrivial = '
        'distinct ones with M >= 2')


def probe_main(path):
    with open(path) as f:
        c = json.load(f)
    cands.init_worker(overrides={('placement', 'randomize_allocation_candidates'): False}, use_model=False)
    a = cands.app()
    cands.build_state(a, c['dump'])
    q = c['query']
    out = []
    for N in range(1, c['M']):
        _, _, r = ask(a, q, N)
        out.append([cands.show(x) for x in reqs(r, q['mv'] >= 34)])
    print(json.dumps(out))


def replay(doc):
    rp = doc['replay']
    if rp.get('hashseed_probe'):
        c = {'dump': rp['dump'], 'query': rp['query'], 'M': 10 ** 6}
        # M unknown here: ask the unlimited size first in this process
        cands.init_worker(overrides={('placement', 'randomize_allocation_candidates'): False}, use_model=False)
        a = cands.app()
        cands.build_state(a, rp['dump'])
        _, _, r = ask(a, rp['query'])
        c['M'] = len(r.json['allocation_requests'])
        (_, outs), = hashseed_probe([c])
        for i, o in enumerate(outs):
            print('PYTHONHASHSEED=%d limit=1: %s' % (i + 1, json.dumps(o[0]) if o else o))
        hit = any(o != outs[0] for o in outs[1:])
        print('REPRODUCED' if hit else 'not reproduced')
        return 1 if hit else 0
    cands.init_worker(overrides={('placement', 'randomize_allocation_candidates'): bool(rp.get('randomize'))}, use_model=False)
    a = cands.app()
    cands.build_state(a, rp['dump'])
    info, probs = examine(a, rp['query'], bool(rp.get('randomize')), random.Random(0))
    print('GET %s (microversion %s): M = %d, %d requests sent' % (info['url'], info['version'], info['M'], info['requests']))
    for sig, detail in probs:
        print('  %s: %s' % (sig, detail))
    print('REPRODUCED' if probs else 'not reproduced')
    return 1 if probs else 0


if __name__ == '__main__':
    if len(sys.argv) == 3 and sys.argv[1] == 'probe':
        probe_main(sys.argv[2])
