"""C14  Each microversion exposes exactly its documented surface.

Stage 1  Lean: translate (harness/extractors/versions.py) + build + audit Placement.Props.C14.
Stage 2  predictions of the Lean model (`respond`, feature table, schema chains) obtained by RUNNING Lean
         (lean/C14Dump.lean), never re-implemented here.
Stage 3  exhaustive probe of the real application (harness.app.App):
         A. every version header case x every path template (+ undeclared paths) x every method
            -> status class compared with (a) the documented route table below  [monitor]
                                           (b) the Lean prediction             [correspondence]
         B. for every feature of the feature table concrete probing requests, at all 40 microversions
            + no header + `latest`: below N absent/rejected as documented, from N on present  [monitor];
            the feature's N of the Lean table must be the documented one and `implementedAt` computed from
            the generated gates must agree with what the application shows              [correspondence]
         C. on every response whose version was accepted (2xx and 4xx): `openstack-api-version: placement 1.N`
            naming the applied version and `vary` listing the header                        [monitor]
         D. the probes of SUSPECTED_DEFECTS (see there).
         E. every route below its first version under varied Accept / Content-Type: still the documented 404/405.
"""
from harness import ppool
import fcntl
import json
import os
import re
import subprocess

from harness.common import LEAN

META = {
    'property_id': 'C14',
    'lean_module': 'Placement.Props.C14',
    'category': 'proof',
    'text': 'Every (route, method) answers from exactly the documented microversion on (404/405 below, 406 outside '
            '1.0-1.39, none = 1.0, latest = 1.39); every documented feature is absent or rejected below its version and '
            'present from it on; every accepted request is answered with the applied version in openstack-api-version '
            'and Vary.',
    'level_note': 'Theorems are over tables generated from the source tree (VERSIONS, ROUTE_DECLARATIONS, VERSIONED_METHODS, '
                  'every in-handler version gate found by ast) and a model of dispatch/version_handler/extract_version; '
                  'Routes path matching, webob and microversion_parse are trusted and exercised by the exhaustive probe; '
                  'what a gate guards (the body of the if) is tied to the documentation by the feature probes, not by proof.',
    'technique': 'Lean 4 theorems over generated tables + exhaustive probe of the real app',
    'design_ref': '§5 C14, Appendix A',
}

U1 = '11111111-1111-1111-1111-111111111111'   # root, VCPU/MEMORY_MB/DISK_GB, CUSTOM_T1, AGG1, allocation of C1
U2 = '22222222-2222-2222-2222-222222222222'   # child of U1, SRIOV_NET_VF, CUSTOM_T2
U3 = '33333333-3333-3333-3333-333333333333'   # second root, VCPU, nothing else
UNEW = '44444444-4444-4444-4444-444444444444'
UNKNOWN = '99999999-9999-9999-9999-999999999999'
AGG1 = 'aaaaaaaa-aaaa-aaaa-aaaa-aaaaaaaaaaa1'
AGG2 = 'aaaaaaaa-aaaa-aaaa-aaaa-aaaaaaaaaaa2'
C1 = 'cccccccc-cccc-cccc-cccc-ccccccccccc1'   # has an allocation
C2 = 'cccccccc-cccc-cccc-cccc-ccccccccccc2'   # new consumer
C3 = 'cccccccc-cccc-cccc-cccc-ccccccccccc3'   # written at 1.37: no consumer type stored (reads as "unknown" from 1.38)
P1, USR1 = 'project-1', 'user-1'

# --------------------------------------------------------------------------------------------------
# The documented surface (api-ref "New in version" notes + rest_api_version_history.rst), written down
# independently of the code and of the Lean tables: (path template, method) -> (first minor, status below).
DOC_ROUTES = {
    ('', 'GET'): (0, None), ('/', 'GET'): (0, None),
    ('/resource_providers', 'GET'): (0, None), ('/resource_providers', 'POST'): (0, None),
    ('/resource_providers/{uuid}', 'GET'): (0, None), ('/resource_providers/{uuid}', 'PUT'): (0, None),
    ('/resource_providers/{uuid}', 'DELETE'): (0, None),
    ('/resource_providers/{uuid}/inventories', 'GET'): (0, None),
    ('/resource_providers/{uuid}/inventories', 'POST'): (0, None),
    ('/resource_providers/{uuid}/inventories', 'PUT'): (0, None),
    ('/resource_providers/{uuid}/inventories', 'DELETE'): (5, 405),
    ('/resource_providers/{uuid}/inventories/{resource_class}', 'GET'): (0, None),
    ('/resource_providers/{uuid}/inventories/{resource_class}', 'PUT'): (0, None),
    ('/resource_providers/{uuid}/inventories/{resource_class}', 'DELETE'): (0, None),
    ('/resource_providers/{uuid}/usages', 'GET'): (0, None),
    ('/resource_providers/{uuid}/allocations', 'GET'): (0, None),
    ('/resource_providers/{uuid}/aggregates', 'GET'): (1, 404),
    ('/resource_providers/{uuid}/aggregates', 'PUT'): (1, 404),
    ('/resource_providers/{uuid}/traits', 'GET'): (6, 404),
    ('/resource_providers/{uuid}/traits', 'PUT'): (6, 404),
    ('/resource_providers/{uuid}/traits', 'DELETE'): (6, 404),
    ('/resource_classes', 'GET'): (2, 404), ('/resource_classes', 'POST'): (2, 404),
    ('/resource_classes/{name}', 'GET'): (2, 404), ('/resource_classes/{name}', 'PUT'): (2, 404),
    ('/resource_classes/{name}', 'DELETE'): (2, 404),
    ('/traits', 'GET'): (6, 404),
    ('/traits/{name}', 'GET'): (6, 404), ('/traits/{name}', 'PUT'): (6, 404), ('/traits/{name}', 'DELETE'): (6, 404),
    ('/allocations', 'POST'): (13, 404),
    ('/allocations/{consumer_uuid}', 'GET'): (0, None), ('/allocations/{consumer_uuid}', 'PUT'): (0, None),
    ('/allocations/{consumer_uuid}', 'DELETE'): (0, None),
    ('/allocation_candidates', 'GET'): (10, 404),
    ('/usages', 'GET'): (9, 404),
    ('/reshaper', 'POST'): (30, 404),
}
DOC_PATHS = sorted(set(p for p, _m in DOC_ROUTES))
DOC_MIN, DOC_MAX = 0, 39

# documented version of each feature of the Lean feature table (tag -> minor), from rest_api_version_history.rst
DOC_FEATURES = {
    'aggregates_routes': 1, 'links_aggregates': 1, 'resource_class_routes': 2, 'rp_member_of': 3, 'rp_resources': 4,
    'delete_all_inventories': 5, 'traits_routes': 6, 'links_traits': 6, 'put_resource_class_idempotent': 7,
    'allocation_project_user': 8, 'usages_route': 9, 'allocation_candidates_route': 10, 'links_allocations': 11,
    'allocation_dict_format': 12, 'post_allocations': 13, 'nested_providers': 14, 'last_modified': 15,
    'candidates_limit': 16, 'candidates_required': 17, 'rp_required': 18, 'aggregates_generation': 19,
    'post_provider_returns_body': 20, 'candidates_member_of': 21, 'forbidden_traits': 22, 'error_code': 23,
    'repeated_member_of': 24, 'granular_groups': 25, 'reserved_equal_total': 26, 'all_classes_in_summaries': 27,
    'consumer_generation': 28, 'nested_candidates': 29, 'reshaper_route': 30, 'candidates_in_tree': 31,
    'forbidden_aggregates': 32, 'string_suffixes': 33, 'mappings': 34, 'root_required': 35, 'same_subtree': 36,
    'reparenting': 37, 'consumer_type': 38, 'any_traits': 39,
}

# --------------------------------------------------------------------------------------------------
# Behaviour of the UNCHANGED tree that contradicts the property text.  Each entry is probed explicitly and
# reported as a 'monitor' violation under its own signature; nothing else is exempted.  (Lead decides:
# fix in /repo or entry in KNOWN_FINDINGS.json.)
#
# Cause common to the three: microversion_parse.MicroversionMiddleware adds `vary` only to responses that
# are *returned*; placement.handler.dispatch / PlacementHandler.__call__ *raise* webob errors (route miss 404,
# object NotFound -> 404, missing content-type 400), and for a raised error the middleware adds only the
# openstack-api-version header.
SUSPECTED_DEFECTS = [
    {'signature': 'hdr-vary-missing:unrouted-path:404',
     'what': 'a request for an undeclared path under an accepted microversion is answered 404 with '
             'openstack-api-version but without a Vary header (handler.dispatch raises HTTPNotFound)',
     'origin': 'unrouted-path', 'method': 'GET', 'path': '/nonexistent', 'kw': {}},
    {'signature': 'hdr-vary-missing:notfound-translated:404',
     'what': 'GET /resource_providers/{unknown uuid}: exception.NotFound is turned into HTTPNotFound by '
             'PlacementHandler.__call__ by raising; the 404 carries openstack-api-version but no Vary header',
     'origin': 'notfound-translated', 'method': 'GET', 'path': '/resource_providers/%s' % UNKNOWN, 'kw': {}},
    {'signature': 'hdr-vary-missing:content-type-required:400',
     'what': 'a body without content-type is refused by PlacementHandler.__call__ with a raised 400: '
             'openstack-api-version present, Vary absent',
     'origin': 'content-type-required', 'method': 'POST', 'path': '/resource_providers',
     'kw': {'raw_body': b'{}', 'content_type': None}},
    # Decorator order in placement/handlers/aggregate.py: check_accept / require_content are applied *outside*
    # version_handler (every other versioned handler has version_handler outermost), so below 1.1 the route
    # is refused for its media type before it is refused for its version.  Found by part E.
    {'signature': 'route-below-introduction:GET /resource_providers/{uuid}/aggregates:accept',
     'what': 'at 1.0 GET /resource_providers/{uuid}/aggregates (introduced in 1.1) with `Accept: text/plain` answers '
             '406 instead of the documented 404',
     'part': 'E'},
    {'signature': 'route-below-introduction:PUT /resource_providers/{uuid}/aggregates:content-type',
     'what': 'at 1.0 PUT /resource_providers/{uuid}/aggregates (introduced in 1.1) with `Content-Type: text/plain` or '
             'without body answers 415 instead of the documented 404',
     'part': 'E'},
]
SUSPECT_SIGNATURES = {d['signature'] for d in SUSPECTED_DEFECTS}
HEADER_DEFECTS = [d for d in SUSPECTED_DEFECTS if d.get('part') != 'E']


# ================================================================================================== lean side
def lean_predictions():
    """Run the Lean model and return its predictions (dict)."""
    lock = os.path.join(LEAN, '.build.lock')
    with open(lock, 'w') as lk:
        fcntl.flock(lk, fcntl.LOCK_EX)
        b = subprocess.run(['lake', 'build', 'Placement.Model.Versions'], capture_output=True, text=True, cwd=LEAN)
        if b.returncode != 0:
            raise RuntimeError('cannot build Placement.Model.Versions:\n' + (b.stdout + b.stderr)[-2000:])
        p = subprocess.run(['lake', 'env', 'lean', '--run', 'C14Dump.lean'], capture_output=True, text=True, cwd=LEAN)
    if p.returncode != 0:
        raise RuntimeError('C14Dump.lean failed:\n' + (p.stdout + p.stderr)[-2000:])
    return json.loads(p.stdout)


# ================================================================================================== state
def build_state(app):
    """Providers, inventories, traits, aggregates, a custom class, one allocation; returns generations."""
    def ok(r, *st):
        if r.status not in st:
            raise RuntimeError('state construction failed: %r' % (r,))
        return r
    app.reset()
    c = app.call
    ok(c('POST', '/resource_providers', {'name': 'rp1', 'uuid': U1}), 200)
    ok(c('POST', '/resource_providers', {'name': 'rp2', 'uuid': U2, 'parent_provider_uuid': U1}), 200)
    ok(c('POST', '/resource_providers', {'name': 'rp3', 'uuid': U3}), 200)
    for t in ('CUSTOM_T1', 'CUSTOM_T2', 'CUSTOM_T3'):
        ok(c('PUT', '/traits/%s' % t), 201)
    ok(c('PUT', '/resource_classes/CUSTOM_RC1'), 201)
    ok(c('PUT', '/resource_providers/%s/inventories' % U1, {'resource_provider_generation': 0, 'inventories': {
        'VCPU': {'total': 8}, 'MEMORY_MB': {'total': 1024}, 'DISK_GB': {'total': 100}}}), 200)
    ok(c('PUT', '/resource_providers/%s/inventories' % U2, {'resource_provider_generation': 0, 'inventories': {
        'SRIOV_NET_VF': {'total': 4}}}), 200)
    ok(c('PUT', '/resource_providers/%s/inventories' % U3, {'resource_provider_generation': 0, 'inventories': {
        'VCPU': {'total': 4}}}), 200)
    ok(c('PUT', '/resource_providers/%s/traits' % U1, {'resource_provider_generation': 1, 'traits': ['CUSTOM_T1']}), 200)
    ok(c('PUT', '/resource_providers/%s/traits' % U2, {'resource_provider_generation': 1, 'traits': ['CUSTOM_T2']}), 200)
    ok(c('PUT', '/resource_providers/%s/aggregates' % U1, {'resource_provider_generation': 2, 'aggregates': [AGG1]}), 200)
    ok(c('PUT', '/allocations/%s' % C1, {'allocations': {U1: {'resources': {'VCPU': 1}}}, 'project_id': P1,
                                         'user_id': USR1, 'consumer_generation': None, 'consumer_type': 'INSTANCE'}), 204)
    ok(c('PUT', '/allocations/%s' % C3, {'allocations': {U2: {'resources': {'SRIOV_NET_VF': 1}}}, 'project_id': 'project-legacy',
                                         'user_id': 'user-legacy', 'consumer_generation': None}, version='1.37'), 204)
    gens = {}
    for u in (U1, U2, U3):
        gens[u] = ok(c('GET', '/resource_providers/%s' % u), 200).json['generation']
    return gens


def concretise(template):
    return (template.replace('{uuid}', U3).replace('{consumer_uuid}', C1).replace('{resource_class}', 'VCPU')
            .replace('/resource_classes/{name}', '/resource_classes/CUSTOM_RC1')
            .replace('/traits/{name}', '/traits/CUSTOM_T3'))


# ================================================================================================== header cases
def header_cases():
    """(label, version argument of App.call, extra headers, lean key, documented: ('accept', minor) | ('reject', {codes}))"""
    cases = []
    for n in range(DOC_MIN, DOC_MAX + 1):
        cases.append(('1.%d' % n, '1.%d' % n, None, 'ver:1:%d' % n, ('accept', n)))
    cases.append(('(no header)', None, None, 'absent', ('accept', DOC_MIN)))
    cases.append(('latest', 'latest', None, 'latest', ('accept', DOC_MAX)))
    cases.append(('compute 2.5 (other service)', None, {'openstack-api-version': 'compute 2.5'}, 'otherService',
                  ('accept', DOC_MIN)))
    for s, key in (('1.40', 'ver:1:40'), ('1.41', 'ver:1:41'), ('1.100', 'ver:1:100'), ('0.9', 'ver:0:9'),
                   ('0.0', 'ver:0:0'), ('2.0', 'ver:2:0'), ('2.39', 'ver:2:39'), ('10.1', 'ver:10:1')):
        cases.append((s, s, None, key, ('reject', {406})))
    # not a version at all: the middleware documents 400; the property only demands that it is not served
    for s in ('1.x', 'garbage', '1', '1.2.3', 'v1.5'):
        cases.append((s, s, None, 'malformed', ('reject', {400, 406})))
    return cases


# ================================================================================================== run
class Recorder(object):
    """What a worker process records; merged into the Check by the parent (same calls as harness.common.Check)."""

    def __init__(self):
        self.violations, self.evaluations, self.tallies, self.samples, self.cov = [], [], {}, [], {}

    def violation(self, kind, signature, detail, replay):
        self.violations.append((kind, signature, detail, replay))

    def evaluation(self, key):
        self.evaluations.append(key)

    def tally(self, key, sub, n=1):
        d = self.tallies.setdefault(key, {})
        d[sub] = d.get(sub, 0) + n

    def sample(self, obj):
        self.samples.append(obj)

    def merge_into(self, chk):
        for v in self.violations:
            chk.violation(*v)
        for k in self.evaluations:
            chk.evaluation(k)
        for key, d in self.tallies.items():
            for sub, n in d.items():
                chk.tally(key, sub, n)
        for smp in self.samples:
            chk.sample(smp)
        for k, v in self.cov.items():
            if isinstance(v, int) and isinstance(chk.cov.get(k), int):
                chk.cov[k] += v
            else:
                chk.cov[k] = v


class Ctx(object):
    def __init__(self, chk, app, pred):
        self.chk, self.app, self.pred = chk, app, pred
        self.n_header_checks = 0

    def call(self, method, path, case, body=None, origin='handler', what=None, **kw):
        """One request under header case `case`; checks the version headers of the response (part C)."""
        label, version, extra, _key, doc = case
        r = self.app.call(method, path, body=body, version=version, headers=extra, **kw)
        if doc[0] == 'accept':
            self.n_header_checks += 1
            want = 'placement 1.%d' % doc[1]
            got = r.headers.get('openstack-api-version')
            replay = {'method': method, 'path': path, 'request_headers': req_headers(case), 'body': body,
                      'extra': {k: repr(v) for k, v in kw.items()}, 'status': r.status,
                      'response_headers': {k: r.headers[k] for k in r.headers if k in ('openstack-api-version', 'vary')}}
            if got != want:
                self.chk.violation(
                    'monitor', 'hdr-version:%s:%d' % (origin, r.status),
                    'response to a request whose version was accepted does not name the applied version',
                    dict(replay, expected={'openstack-api-version': want}, observed={'openstack-api-version': got}))
            vary = [x.strip().lower() for x in (r.headers.get('vary') or '').split(',')]
            if 'openstack-api-version' not in vary:
                sig = 'hdr-vary-missing:%s:%d' % (origin, r.status)
                self.chk.tally('vary_missing', sig)
                self.chk.violation(
                    'monitor', sig,
                    'response to a request whose version was accepted has no `Vary: openstack-api-version`'
                    + (' [SUSPECTED_DEFECT]' if sig in SUSPECT_SIGNATURES else ''),
                    dict(replay, expected={'vary': 'contains openstack-api-version'},
                         observed={'vary': r.headers.get('vary')}))
        return r


def req_headers(case):
    _label, version, extra, _k, _d = case
    h = {'x-auth-token': 'admin', 'accept': 'application/json'}
    if version:
        h['openstack-api-version'] = 'placement %s' % version
    h.update(extra or {})
    return h


def doc_outcome(template, method, doc):
    """documented outcome of (path template, method) under documented negotiation result `doc`"""
    if doc[0] == 'reject':
        return ('status', doc[1])
    v = doc[1]
    if template not in DOC_PATHS:
        return ('status', {404})
    if (template, method) not in DOC_ROUTES:
        return ('status', {405})
    n, below = DOC_ROUTES[(template, method)]
    if v < n:
        return ('status', {below})
    return ('served', v)


def matches(outcome, status):
    if outcome[0] == 'served':
        return status not in (404, 405) and status < 500
    return status in outcome[1]


def matrix_axes(pred):
    templates = list(pred['declared_paths']) + list(pred['undeclared_paths'])
    for t in DOC_PATHS:
        if t not in templates:
            templates.append(t)     # a documented path the code no longer declares is probed all the same
    return templates, list(pred['methods'])


def part_a(cx, thorough, case_index):
    """route x method x version-header matrix: the row of one header case"""
    chk, pred = cx.chk, cx.pred
    templates, methods = matrix_axes(pred)
    snap = cx.app.snapshot()
    n_cells = 0
    for case in [header_cases()[case_index]]:
        label, version, extra, key, doc = case
        lean_row = pred['respond'].get(key)
        ms = methods if (doc[0] == 'accept' or thorough) else ['GET', 'PUT', 'PATCH']
        for t in templates:
            path = concretise(t)
            origin = 'handler' if t in DOC_PATHS else 'unrouted-path'
            for m in ms:
                cx.app.restore(snap)
                body = {} if m in ('PUT', 'POST', 'PATCH') else None
                r = cx.call(m, path, case, body=body, origin=origin)
                n_cells += 1
                chk.evaluation(['A', label, t, m])
                chk.tally('matrix_status', str(r.status))
                want_doc = doc_outcome(t, m, doc)
                lp = (lean_row or {}).get(t, {}).get(m)
                want_lean = None
                if lp is not None:
                    want_lean = ('served', lp['served']) if 'served' in lp else ('status', {lp['status']})
                replay = {'method': m, 'path': path, 'template': t, 'request_headers': req_headers(case), 'body': body,
                          'observed_status': r.status,
                          'state': 'harness.props.c14.build_state (providers U1>U2, U3; inventories; traits; aggregate; '
                                   'CUSTOM_RC1; allocation of C1)'}
                if not matches(want_doc, r.status):
                    chk.violation('monitor', 'route:%s %s' % (m, t or '(empty path)'),
                                  'availability differs from the documented surface at version header %r: documented %s, '
                                  'observed status %d' % (label, fmt(want_doc), r.status),
                                  dict(replay, expected=fmt(want_doc)))
                if r.status >= 500:
                    chk.violation('monitor', 'server-error:%s %s' % (m, t), 'status %d' % r.status, replay)
                if want_lean is None:
                    chk.violation('correspondence', 'lean-has-no-row:%s %s' % (m, t),
                                  'the Lean dump has no prediction for this cell', replay)
                elif not matches(want_lean, r.status):
                    chk.violation('correspondence', 'availability:%s %s' % (m, t or '(empty path)'),
                                  'Lean `respond` predicts %s at %r, application answered %d'
                                  % (fmt(want_lean), label, r.status), dict(replay, lean=fmt(want_lean)))
                if doc[0] == 'reject' and 406 in doc[1] and r.status == 406 and m != 'HEAD':   # HEAD has no body
                    e = (r.json or {}).get('errors', [{}])[0] if isinstance(r.json, dict) else {}
                    if e.get('min_version') != '1.%d' % DOC_MIN or e.get('max_version') != '1.%d' % DOC_MAX:
                        chk.violation('monitor', 'negotiation-406-body',
                                      '406 for an unsupported version does not carry min_version/max_version',
                                      dict(replay, observed=e))
        # negotiation itself: header the Lean model says the response carries
        ln = pred['negotiation'].get(key)
        if ln is None or (doc[0] == 'accept') != ('accept' in ln['neg']) or \
                (doc[0] == 'accept' and (ln['neg']['accept'] != doc[1] or ln['header'] != 'placement 1.%d' % doc[1])):
            chk.violation('correspondence', 'negotiation:%s' % key,
                          'Lean `negotiate` = %r, documented %r' % (ln, doc), {'header': label})
    cx.app.restore(snap)
    chk.cov['matrix_cells'] = n_cells


def fmt(o):
    if o is None:
        return None
    if o[0] == 'served':
        return 'served at 1.%d (status other than 404/405/5xx)' % o[1]
    return 'status in %s' % sorted(o[1])


# ================================================================================================== feature probes
def alloc_body(v, project_user=None, dict_form=None, consumer_generation=None, consumer_type=None, mappings=False,
               empty=False, rp=U3, gen=None):
    """The body of PUT /allocations/{c} the documentation prescribes at minor v; each keyword forces a part on/off."""
    pu = v >= 8 if project_user is None else project_user
    df = v >= 12 if dict_form is None else dict_form
    cg = v >= 28 if consumer_generation is None else consumer_generation
    ct = v >= 38 if consumer_type is None else consumer_type
    if df:
        allocs = {} if empty else {rp: {'resources': {'VCPU': 1}}}
    else:
        allocs = [] if empty else [{'resource_provider': {'uuid': rp}, 'resources': {'VCPU': 1}}]
    b = {'allocations': allocs}
    if pu:
        b['project_id'], b['user_id'] = P1, USR1
    if cg:
        b['consumer_generation'] = gen
    if ct:
        b['consumer_type'] = 'INSTANCE'
    if mappings:
        b['mappings'] = {'': [rp]}
    return b


def post_alloc_body(v, consumer=C2, **kw):
    kw.setdefault('project_user', True)
    kw.setdefault('dict_form', True)
    return {consumer: alloc_body(v, **kw)}


def reshaper_body(v, gens, with_alloc=True, **kw):
    b = {'inventories': {U3: {'resource_provider_generation': gens[U3], 'inventories': {'VCPU': {'total': 4}}}},
         'allocations': {}}
    if with_alloc:
        kw.setdefault('project_user', True)
        kw.setdefault('dict_form', True)
        kw.setdefault('consumer_generation', True)
        b['allocations'] = {C2: alloc_body(v, **kw)}
    return b


CANDS = '/allocation_candidates?resources=VCPU:1'


def st(*codes):
    return lambda r, app: r.status in codes


def has(path, key):
    """2xx and key present at json path"""
    def f(r, app):
        x = walk(r, path)
        return x is not None and key in x
    return f


def lacks(path, key):
    def f(r, app):
        x = walk(r, path)
        return x is not None and key not in x
    return f


def walk(r, path):
    if not (200 <= r.status < 300) or not isinstance(r.json, dict):
        return None
    x = r.json
    for k in path:
        if callable(k):
            x = k(x)
        elif isinstance(x, dict) and k in x:
            x = x[k]
        elif isinstance(x, list) and isinstance(k, int) and len(x) > k:
            x = x[k]
        else:
            return None
    return x


def links_has(rel):
    def f(r, app):
        x = walk(r, ['links'])
        return x is not None and rel in [l.get('rel') for l in x]
    return f


def links_lacks(rel):
    def f(r, app):
        x = walk(r, ['links'])
        return x is not None and rel not in [l.get('rel') for l in x]
    return f


def list_links_has(rel, yes=True):
    def f(r, app):
        x = walk(r, ['resource_providers'])
        if not x:
            return False
        return all((rel in [l.get('rel') for l in p['links']]) == yes for p in x)
    return f


def lm_present(r, app):
    return 200 <= r.status < 300 and 'last-modified' in r.headers and r.headers.get('cache-control') == 'no-cache'


def lm_absent(r, app):
    return 200 <= r.status < 300 and 'last-modified' not in r.headers and 'cache-control' not in r.headers


def uuids(r):
    return sorted(p['uuid'] for p in r.json['resource_providers'])


def err_has_code(r, app):
    return r.status >= 400 and isinstance(r.json, dict) and 'code' in r.json['errors'][0]


def err_lacks_code(r, app):
    return r.status >= 400 and isinstance(r.json, dict) and 'code' not in r.json['errors'][0]


class P(object):
    """One probe of one feature: `req(v, gens)` -> (method, path, body, kwargs); `present`/`absent` decide, on the
    response (and the application for follow-up reads), whether the feature shows / is absent as documented.
    `route` = (template, method) the request goes to (for the documented 404/405 below the route's own version);
    `route_feature` = the probe is the route's introduction itself."""

    def __init__(self, tag, name, method, path, present, absent, body=None, route=None, kw=None, origin='handler', pre=None):
        self.tag, self.name, self.method, self.path = tag, name, method, path
        self.present, self.absent, self.body, self.route, self.kw, self.origin = present, absent, body, route, kw or {}, origin
        # requests (method, path, body) sent at the latest version before the probe, to put the state in place
        self.pre = pre or []

    def request(self, v, gens):
        path = self.path(v, gens) if callable(self.path) else self.path
        body = self.body(v, gens) if callable(self.body) else self.body
        return self.method, path, body


def feature_probes():
    rp = '/resource_providers'
    L = []

    def add(*a, **k):
        L.append(P(*a, **k))
    T = lambda tmpl, m: (tmpl, m)   # noqa
    # ---- 1.1
    add('aggregates_routes', 'GET aggregates', 'GET', '%s/%s/aggregates' % (rp, U1), st(200), st(404))
    add('aggregates_routes', 'PUT aggregates', 'PUT', '%s/%s/aggregates' % (rp, U1), st(200), st(404),
        body=lambda v, g: {'aggregates': [AGG2], 'resource_provider_generation': g[U1]} if v >= 19 else [AGG2])
    add('links_aggregates', 'GET provider links', 'GET', '%s/%s' % (rp, U1), links_has('aggregates'), links_lacks('aggregates'))
    add('links_aggregates', 'GET providers links', 'GET', rp, list_links_has('aggregates'), list_links_has('aggregates', False))
    # ---- 1.2
    add('resource_class_routes', 'GET /resource_classes', 'GET', '/resource_classes', st(200), st(404))
    add('resource_class_routes', 'POST /resource_classes', 'POST', '/resource_classes', st(201), st(404),
        body={'name': 'CUSTOM_NEW'})
    add('resource_class_routes', 'GET /resource_classes/{name}', 'GET', '/resource_classes/CUSTOM_RC1', st(200), st(404))
    add('resource_class_routes', 'PUT /resource_classes/{name}', 'PUT', '/resource_classes/CUSTOM_RC1', st(200, 204), st(404),
        body={'name': 'CUSTOM_RC2'})
    add('resource_class_routes', 'DELETE /resource_classes/{name}', 'DELETE', '/resource_classes/CUSTOM_RC1', st(204), st(404))
    # ---- 1.3 / 1.4
    add('rp_member_of', 'member_of=in:', 'GET', '%s?member_of=in:%s,%s' % (rp, AGG1, AGG2),
        lambda r, a: r.status == 200 and uuids(r) == [U1], st(400))
    add('rp_member_of', 'member_of=<agg>', 'GET', '%s?member_of=%s' % (rp, AGG1),
        lambda r, a: r.status == 200 and uuids(r) == [U1], st(400))
    add('rp_resources', 'resources=', 'GET', '%s?resources=VCPU:5' % rp,
        lambda r, a: r.status == 200 and uuids(r) == [U1], st(400))
    # ---- 1.5
    add('delete_all_inventories', 'DELETE inventories', 'DELETE', '%s/%s/inventories' % (rp, U3), st(204), st(405))
    # ---- 1.6
    add('traits_routes', 'GET /traits', 'GET', '/traits', st(200), st(404))
    add('traits_routes', 'PUT /traits/{name}', 'PUT', '/traits/CUSTOM_NEW', st(201), st(404))
    add('traits_routes', 'GET /traits/{name}', 'GET', '/traits/CUSTOM_T1', st(204), st(404))
    add('traits_routes', 'DELETE /traits/{name}', 'DELETE', '/traits/CUSTOM_T3', st(204), st(404))
    add('traits_routes', 'GET provider traits', 'GET', '%s/%s/traits' % (rp, U1), st(200), st(404))
    add('traits_routes', 'PUT provider traits', 'PUT', '%s/%s/traits' % (rp, U3), st(200), st(404),
        body=lambda v, g: {'traits': ['CUSTOM_T1'], 'resource_provider_generation': g[U3]})
    add('traits_routes', 'DELETE provider traits', 'DELETE', '%s/%s/traits' % (rp, U1), st(204), st(404))
    add('links_traits', 'GET provider links', 'GET', '%s/%s' % (rp, U1), links_has('traits'), links_lacks('traits'))
    add('links_traits', 'GET providers links', 'GET', rp, list_links_has('traits'), list_links_has('traits', False))
    # ---- 1.7
    rc = T('/resource_classes/{name}', 'PUT')
    add('put_resource_class_idempotent', 'bodiless PUT new class', 'PUT', '/resource_classes/CUSTOM_BRANDNEW',
        st(201), st(400, 415), route=rc)
    add('put_resource_class_idempotent', 'bodiless PUT existing class', 'PUT', '/resource_classes/CUSTOM_RC1',
        st(204), st(400, 415), route=rc)
    add('put_resource_class_idempotent', 'PUT with body (rename only 1.2-1.6)', 'PUT', '/resource_classes/CUSTOM_RC1',
        lambda r, a: r.status == 204 and a.call('GET', '/resource_classes/CUSTOM_RC9').status == 404
        and a.call('GET', '/resource_classes/CUSTOM_RC1').status == 200,
        lambda r, a: r.status == 200 and r.json.get('name') == 'CUSTOM_RC9'
        and a.call('GET', '/resource_classes/CUSTOM_RC1').status == 404,
        body={'name': 'CUSTOM_RC9'}, route=rc)
    # ---- 1.8
    pa = T('/allocations/{consumer_uuid}', 'PUT')
    add('allocation_project_user', 'PUT with project_id/user_id', 'PUT', '/allocations/%s' % C2, st(204), st(400),
        body=lambda v, g: alloc_body(v, project_user=True), route=pa)
    add('allocation_project_user', 'PUT without project_id/user_id', 'PUT', '/allocations/%s' % C2, st(400), st(204),
        body=lambda v, g: alloc_body(v, project_user=False), route=pa)
    # ---- 1.9 / 1.10 / 1.11
    add('usages_route', 'GET /usages', 'GET', '/usages?project_id=%s' % P1, st(200), st(404))
    add('allocation_candidates_route', 'GET /allocation_candidates', 'GET', CANDS, st(200), st(404))
    add('links_allocations', 'GET provider links', 'GET', '%s/%s' % (rp, U1), links_has('allocations'), links_lacks('allocations'))
    add('links_allocations', 'GET providers links', 'GET', rp, list_links_has('allocations'), list_links_has('allocations', False))
    # ---- 1.12
    add('allocation_dict_format', 'PUT dict form', 'PUT', '/allocations/%s' % C2, st(204), st(400),
        body=lambda v, g: alloc_body(v, dict_form=True), route=pa)
    add('allocation_dict_format', 'PUT list form', 'PUT', '/allocations/%s' % C2, st(400), st(204),
        body=lambda v, g: alloc_body(v, dict_form=False), route=pa)
    add('allocation_dict_format', 'GET allocations project/user', 'GET', '/allocations/%s' % C1,
        lambda r, a: has([], 'project_id')(r, a) and has([], 'user_id')(r, a),
        lambda r, a: lacks([], 'project_id')(r, a) and lacks([], 'user_id')(r, a))
    ca = T('/allocation_candidates', 'GET')
    add('allocation_dict_format', 'allocation_requests form', 'GET', CANDS,
        lambda r, a: isinstance(walk(r, ['allocation_requests', 0, 'allocations']), dict),
        lambda r, a: isinstance(walk(r, ['allocation_requests', 0, 'allocations']), list), route=ca)
    # ---- 1.13
    add('post_allocations', 'POST /allocations', 'POST', '/allocations', st(204), st(404),
        body=lambda v, g: post_alloc_body(v))
    # ---- 1.14
    add('nested_providers', 'GET provider parent/root', 'GET', '%s/%s' % (rp, U2),
        lambda r, a: walk(r, ['parent_provider_uuid']) == U1 and walk(r, ['root_provider_uuid']) == U1,
        lambda r, a: lacks([], 'parent_provider_uuid')(r, a) and lacks([], 'root_provider_uuid')(r, a))
    add('nested_providers', 'POST with parent', 'POST', rp, st(200, 201), st(400),
        body={'name': 'child', 'uuid': UNEW, 'parent_provider_uuid': U1})
    add('nested_providers', 'PUT with parent', 'PUT', '%s/%s' % (rp, U3), st(200), st(400),
        body={'name': 'rp3', 'parent_provider_uuid': U1})
    add('nested_providers', 'in_tree on listing', 'GET', '%s?in_tree=%s' % (rp, U1),
        lambda r, a: r.status == 200 and uuids(r) == [U1, U2], st(400))
    # ---- 1.15  (GETs and the PUT/POST that answer with a body)
    g15 = [('GET /', 'GET', '/', None), ('GET providers', 'GET', rp, None), ('GET provider', 'GET', '%s/%s' % (rp, U1), None),
           ('GET inventories', 'GET', '%s/%s/inventories' % (rp, U1), None),
           ('GET inventory', 'GET', '%s/%s/inventories/VCPU' % (rp, U1), None),
           ('GET provider usages', 'GET', '%s/%s/usages' % (rp, U1), None),
           ('GET provider allocations', 'GET', '%s/%s/allocations' % (rp, U1), None),
           ('GET consumer allocations', 'GET', '/allocations/%s' % C1, None),
           ('GET aggregates', 'GET', '%s/%s/aggregates' % (rp, U1), T(rp + '/{uuid}/aggregates', 'GET')),
           ('GET provider traits', 'GET', '%s/%s/traits' % (rp, U1), T(rp + '/{uuid}/traits', 'GET')),
           ('GET traits', 'GET', '/traits', T('/traits', 'GET')),
           ('GET trait', 'GET', '/traits/CUSTOM_T1', T('/traits/{name}', 'GET')),
           ('GET resource classes', 'GET', '/resource_classes', T('/resource_classes', 'GET')),
           ('GET resource class', 'GET', '/resource_classes/VCPU', T('/resource_classes/{name}', 'GET')),
           ('GET custom resource class', 'GET', '/resource_classes/CUSTOM_RC1', T('/resource_classes/{name}', 'GET')),
           ('GET usages', 'GET', '/usages?project_id=%s' % P1, T('/usages', 'GET')),
           ('GET candidates', 'GET', CANDS, ca),
           # the same reads with EMPTY results (no row contributes a timestamp: the header must still be there)
           ('GET providers, none matching', 'GET', rp + '?name=no-such-provider', None),
           ('GET provider allocations, none', 'GET', '%s/%s/allocations' % (rp, U3), None),
           ('GET consumer allocations, unknown consumer', 'GET', '/allocations/%s' % C2, None),
           ('GET aggregates, none', 'GET', '%s/%s/aggregates' % (rp, U3), T(rp + '/{uuid}/aggregates', 'GET')),
           ('GET provider traits, none', 'GET', '%s/%s/traits' % (rp, U3), T(rp + '/{uuid}/traits', 'GET')),
           ('GET traits, none matching', 'GET', '/traits?name=startswith:CUSTOM_NOPE', T('/traits', 'GET')),
           ('GET usages, unknown project', 'GET', '/usages?project_id=no-such-project', T('/usages', 'GET'))]
    for (nm, m, pth, rt) in g15:
        add('last_modified', nm, m, pth, lm_present, lm_absent, route=rt)
    add('last_modified', 'PUT provider', 'PUT', '%s/%s' % (rp, U3), lm_present, lm_absent, body={'name': 'rp3b'})
    add('last_modified', 'POST inventory', 'POST', '%s/%s/inventories' % (rp, U3), lm_present, lm_absent,
        body={'resource_class': 'MEMORY_MB', 'total': 16})
    add('last_modified', 'PUT inventories', 'PUT', '%s/%s/inventories' % (rp, U3), lm_present, lm_absent,
        body=lambda v, g: {'resource_provider_generation': g[U3], 'inventories': {'VCPU': {'total': 6}}})
    add('last_modified', 'PUT inventory', 'PUT', '%s/%s/inventories/VCPU' % (rp, U3), lm_present, lm_absent,
        body=lambda v, g: {'resource_provider_generation': g[U3], 'total': 6})
    add('last_modified', 'PUT aggregates', 'PUT', '%s/%s/aggregates' % (rp, U1), lm_present, lm_absent,
        body=lambda v, g: {'aggregates': [AGG2], 'resource_provider_generation': g[U1]} if v >= 19 else [AGG2],
        route=T(rp + '/{uuid}/aggregates', 'PUT'))
    add('last_modified', 'PUT provider traits', 'PUT', '%s/%s/traits' % (rp, U3), lm_present, lm_absent,
        body=lambda v, g: {'traits': ['CUSTOM_T1'], 'resource_provider_generation': g[U3]},
        route=T(rp + '/{uuid}/traits', 'PUT'))
    # ---- 1.16 / 1.17 / 1.18
    add('candidates_limit', 'limit=1', 'GET', CANDS + '&limit=1',
        lambda r, a: r.status == 200 and len(r.json['allocation_requests']) == 1, st(400), route=ca)
    add('candidates_required', 'required=', 'GET', CANDS + '&required=CUSTOM_T1',
        lambda r, a: r.status == 200 and len(r.json['allocation_requests']) == 1, st(400), route=ca)
    add('candidates_required', 'traits in provider_summaries', 'GET', CANDS,
        has(['provider_summaries', U1], 'traits'), lacks(['provider_summaries', U1], 'traits'), route=ca)
    add('rp_required', 'required= on listing', 'GET', '%s?required=CUSTOM_T1' % rp,
        lambda r, a: r.status == 200 and uuids(r) == [U1], st(400))
    # ---- 1.19
    ag = T(rp + '/{uuid}/aggregates', 'GET')
    ap = T(rp + '/{uuid}/aggregates', 'PUT')
    add('aggregates_generation', 'GET aggregates generation', 'GET', '%s/%s/aggregates' % (rp, U1),
        has([], 'resource_provider_generation'), lacks([], 'resource_provider_generation'), route=ag)
    add('aggregates_generation', 'PUT object form', 'PUT', '%s/%s/aggregates' % (rp, U1), st(200), st(400),
        body=lambda v, g: {'aggregates': [AGG2], 'resource_provider_generation': g[U1]}, route=ap)
    add('aggregates_generation', 'PUT list form', 'PUT', '%s/%s/aggregates' % (rp, U1), st(400), st(200),
        body=[AGG2], route=ap)
    add('aggregates_generation', 'PUT stale generation', 'PUT', '%s/%s/aggregates' % (rp, U1), st(409), st(400),
        body=lambda v, g: {'aggregates': [AGG2], 'resource_provider_generation': g[U1] + 7}, route=ap)
    # ---- 1.20
    add('post_provider_returns_body', 'POST provider', 'POST', rp,
        lambda r, a: r.status == 200 and isinstance(r.json, dict) and r.json.get('uuid') == UNEW and 'location' in r.headers,
        lambda r, a: r.status == 201 and r.json is None and 'location' in r.headers,
        body={'name': 'new', 'uuid': UNEW})
    # ---- 1.21 / 1.22
    add('candidates_member_of', 'member_of=', 'GET', CANDS + '&member_of=%s' % AGG1,
        lambda r, a: r.status == 200 and len(r.json['allocation_requests']) == 1, st(400), route=ca)
    add('forbidden_traits', 'required=!T on listing', 'GET', '%s?required=!CUSTOM_T1' % rp,
        lambda r, a: r.status == 200 and uuids(r) == [U2, U3], st(400))
    add('forbidden_traits', 'required=!T on candidates', 'GET', CANDS + '&required=!CUSTOM_T1',
        lambda r, a: r.status == 200 and list(r.json['provider_summaries']) == [U3], st(400), route=ca)
    # ---- 1.23
    add('error_code', '400 body', 'GET', '%s?bogus=1' % rp, err_has_code, err_lacks_code)
    add('error_code', '404 body (version handler)', 'GET', '/traits/CUSTOM_NOPE', err_has_code, err_lacks_code)
    add('error_code', '405 body', 'PATCH', rp, err_has_code, err_lacks_code)
    add('error_code', '409 body', 'POST', rp,
        lambda r, a: r.status == 409 and r.json['errors'][0].get('code') == 'placement.duplicate_name',
        lambda r, a: r.status == 409 and 'code' not in r.json['errors'][0], body={'name': 'rp1'})
    add('error_code', '404 body (unknown provider)', 'GET', '%s/%s' % (rp, UNKNOWN), err_has_code, err_lacks_code,
        origin='notfound-translated')
    # ---- 1.24
    add('repeated_member_of', 'two member_of on listing', 'GET', '%s?member_of=%s&member_of=%s' % (rp, AGG1, AGG2),
        lambda r, a: r.status == 200 and uuids(r) == [], st(400))
    add('repeated_member_of', 'two member_of on candidates', 'GET', CANDS + '&member_of=%s&member_of=%s' % (AGG1, AGG2),
        lambda r, a: r.status == 200 and r.json['allocation_requests'] == [], st(400), route=ca)
    # ---- 1.25
    add('granular_groups', 'resources1=', 'GET', '/allocation_candidates?resources1=VCPU:1', st(200), st(400), route=ca)
    add('granular_groups', 'group_policy=', 'GET', CANDS + '&resources1=VCPU:1&resources2=VCPU:1&group_policy=isolate',
        st(200), st(400), route=ca)
    # ---- 1.26
    add('reserved_equal_total', 'PUT inventory reserved == total', 'PUT', '%s/%s/inventories/VCPU' % (rp, U3), st(200), st(400),
        body=lambda v, g: {'resource_provider_generation': g[U3], 'total': 4, 'reserved': 4})
    add('reserved_equal_total', 'POST inventory reserved == total', 'POST', '%s/%s/inventories' % (rp, U3), st(201), st(400),
        body={'resource_class': 'DISK_GB', 'total': 5, 'reserved': 5})
    add('reserved_equal_total', 'PUT inventories reserved == total', 'PUT', '%s/%s/inventories' % (rp, U3), st(200), st(400),
        body=lambda v, g: {'resource_provider_generation': g[U3], 'inventories': {'VCPU': {'total': 4, 'reserved': 4}}})
    # ---- 1.27
    add('all_classes_in_summaries', 'provider_summaries classes', 'GET', CANDS,
        lambda r, a: sorted(walk(r, ['provider_summaries', U1, 'resources']) or []) == ['DISK_GB', 'MEMORY_MB', 'VCPU'],
        lambda r, a: sorted(walk(r, ['provider_summaries', U1, 'resources']) or []) == ['VCPU'], route=ca)
    # ---- 1.28
    add('consumer_generation', 'GET consumer allocations', 'GET', '/allocations/%s' % C1,
        has([], 'consumer_generation'), lacks([], 'consumer_generation'))
    add('consumer_generation', 'GET provider allocations', 'GET', '%s/%s/allocations' % (rp, U1),
        has(['allocations', C1], 'consumer_generation'), lacks(['allocations', C1], 'consumer_generation'))
    add('consumer_generation', 'PUT with consumer_generation', 'PUT', '/allocations/%s' % C2, st(204), st(400),
        body=lambda v, g: alloc_body(v, consumer_generation=True), route=pa)
    add('consumer_generation', 'PUT without consumer_generation', 'PUT', '/allocations/%s' % C2, st(400), st(204),
        body=lambda v, g: alloc_body(v, consumer_generation=False), route=pa)
    add('consumer_generation', 'PUT stale consumer_generation', 'PUT', '/allocations/%s' % C1, st(409), st(400),
        body=lambda v, g: alloc_body(v, consumer_generation=True, gen=42), route=pa)
    add('consumer_generation', 'PUT empty allocations', 'PUT', '/allocations/%s' % C1,
        lambda r, a: r.status == 204 and a.call('GET', '/allocations/%s' % C1).json['allocations'] == {}, st(400),
        body=lambda v, g: alloc_body(v, empty=True, gen=1 if v >= 28 else None), route=pa)
    po = T('/allocations', 'POST')
    add('consumer_generation', 'POST with consumer_generation', 'POST', '/allocations', st(204), st(400),
        body=lambda v, g: post_alloc_body(v, consumer_generation=True), route=po)
    add('consumer_generation', 'POST without consumer_generation', 'POST', '/allocations', st(400), st(204),
        body=lambda v, g: post_alloc_body(v, consumer_generation=False), route=po)
    # ---- 1.29
    add('nested_candidates', 'parent/root in provider_summaries', 'GET', CANDS,
        lambda r, a: has(['provider_summaries', U1], 'root_provider_uuid')(r, a)
        and has(['provider_summaries', U1], 'parent_provider_uuid')(r, a),
        lambda r, a: lacks(['provider_summaries', U1], 'root_provider_uuid')(r, a)
        and lacks(['provider_summaries', U1], 'parent_provider_uuid')(r, a), route=ca)
    add('nested_candidates', 'request spanning a tree', 'GET', '/allocation_candidates?resources=VCPU:1,SRIOV_NET_VF:1',
        lambda r, a: r.status == 200 and [sorted(x['allocations']) for x in r.json['allocation_requests']] == [[U1, U2]]
        and sorted(r.json['provider_summaries']) == [U1, U2],
        # below 1.29 the providers of a dropped request do not appear anywhere in the response
        lambda r, a: r.status == 200 and r.json['allocation_requests'] == [] and r.json['provider_summaries'] == {}, route=ca)
    add('nested_candidates', 'summaries name only providers of kept requests', 'GET', '/allocation_candidates?resources=VCPU:1',
        lambda r, a: r.status == 200 and sorted(r.json['provider_summaries']) == [U1, U2, U3],
        lambda r, a: r.status == 200 and sorted(r.json['provider_summaries']) == [U1, U3], route=ca)
    # ---- 1.30
    add('reshaper_route', 'POST /reshaper', 'POST', '/reshaper', st(204), st(404),
        body=lambda v, g: reshaper_body(v, g))
    # ---- 1.31
    add('candidates_in_tree', 'in_tree=', 'GET', CANDS + '&in_tree=%s' % U1,
        lambda r, a: r.status == 200 and len(r.json['allocation_requests']) == 1, st(400), route=ca)
    add('candidates_in_tree', 'in_tree1=', 'GET', '/allocation_candidates?resources1=VCPU:1&in_tree1=%s' % U3,
        lambda r, a: r.status == 200 and len(r.json['allocation_requests']) == 1, st(400), route=ca)
    # ---- 1.32
    add('forbidden_aggregates', 'member_of=!agg on listing', 'GET', '%s?member_of=!%s' % (rp, AGG1),
        lambda r, a: r.status == 200 and uuids(r) == [U2, U3], st(400))
    add('forbidden_aggregates', 'member_of=!in: on listing', 'GET', '%s?member_of=!in:%s,%s' % (rp, AGG1, AGG2),
        lambda r, a: r.status == 200 and uuids(r) == [U2, U3], st(400))
    add('forbidden_aggregates', 'member_of=!agg on candidates', 'GET', CANDS + '&member_of=!%s' % AGG1,
        lambda r, a: r.status == 200 and list(r.json['provider_summaries']) == [U3], st(400), route=ca)
    # the same with the parameter repeated (repeating is 1.24), the forbidden value first and last: every value is
    # subject to the 1.32 gate, not only the last one
    add('forbidden_aggregates', 'member_of=!agg&member_of=agg on listing', 'GET', '%s?member_of=!%s&member_of=%s' % (rp, AGG2, AGG1),
        lambda r, a: r.status == 200 and uuids(r) == [U1], st(400))
    add('forbidden_aggregates', 'member_of=agg&member_of=!agg on listing', 'GET', '%s?member_of=%s&member_of=!%s' % (rp, AGG1, AGG2),
        lambda r, a: r.status == 200 and uuids(r) == [U1], st(400))
    add('forbidden_aggregates', 'member_of=!in:&member_of=agg on candidates', 'GET',
        CANDS + '&member_of=!in:%s&member_of=%s' % (AGG2, AGG1),
        lambda r, a: r.status == 200 and len(r.json['allocation_requests']) == 1, st(400), route=ca)
    add('forbidden_aggregates', 'member_of=agg&member_of=!agg on candidates', 'GET',
        CANDS + '&member_of=%s&member_of=!%s' % (AGG1, AGG2),
        lambda r, a: r.status == 200 and len(r.json['allocation_requests']) == 1, st(400), route=ca)
    # ---- 1.33
    add('string_suffixes', 'resources_A=', 'GET', '/allocation_candidates?resources_A=VCPU:1', st(200), st(400), route=ca)
    add('string_suffixes', 'uuid suffix', 'GET', '/allocation_candidates?resources_PORT_%s=VCPU:1&required_PORT_%s=CUSTOM_T1'
        % (UNEW, UNEW), st(200), st(400), route=ca)
    # ---- 1.34
    add('mappings', 'mappings in allocation_requests', 'GET', CANDS,
        has(['allocation_requests', 0], 'mappings'), lacks(['allocation_requests', 0], 'mappings'), route=ca)
    add('mappings', 'PUT allocations with mappings', 'PUT', '/allocations/%s' % C2, st(204), st(400),
        body=lambda v, g: alloc_body(v, mappings=True), route=pa)
    add('mappings', 'POST allocations with mappings', 'POST', '/allocations', st(204), st(400),
        body=lambda v, g: post_alloc_body(v, mappings=True), route=po)
    rs = T('/reshaper', 'POST')
    add('mappings', 'reshaper with mappings', 'POST', '/reshaper', st(204), st(400),
        body=lambda v, g: reshaper_body(v, g, mappings=True), route=rs)
    # ---- 1.35 / 1.36
    add('root_required', 'root_required=', 'GET', CANDS + '&root_required=CUSTOM_T1',
        lambda r, a: r.status == 200 and len(r.json['allocation_requests']) == 1, st(400), route=ca)
    add('same_subtree', 'same_subtree=', 'GET',
        '/allocation_candidates?resources_A=VCPU:1&resources_B=SRIOV_NET_VF:1&same_subtree=_A,_B&group_policy=none',
        lambda r, a: r.status == 200 and len(r.json['allocation_requests']) == 1, st(400), route=ca)
    add('same_subtree', 'resourceless group', 'GET',
        '/allocation_candidates?resources_A=VCPU:1&required_B=CUSTOM_T2&same_subtree=_A,_B&group_policy=none',
        lambda r, a: r.status == 200 and len(r.json['allocation_requests']) == 1, st(400), route=ca)
    # ---- 1.37
    add('reparenting', 're-parent', 'PUT', '%s/%s' % (rp, U2),
        lambda r, a: r.status == 200 and r.json['parent_provider_uuid'] == U3 and r.json['root_provider_uuid'] == U3, st(400),
        body={'name': 'rp2', 'parent_provider_uuid': U3})
    add('reparenting', 'un-parent', 'PUT', '%s/%s' % (rp, U2),
        lambda r, a: r.status == 200 and r.json['parent_provider_uuid'] is None and r.json['root_provider_uuid'] == U2, st(400),
        body={'name': 'rp2', 'parent_provider_uuid': None})
    # moves INSIDE one tree (the root does not change): to the grandparent, and below a sibling
    U4, U5 = '44444444-4444-4444-4444-444444444444', '55555555-5555-5555-5555-555555555555'
    grand = [('POST', rp, {'name': 'rp4', 'uuid': U4, 'parent_provider_uuid': U2})]
    add('reparenting', 're-parent to the grandparent (same tree)', 'PUT', '%s/%s' % (rp, U4),
        lambda r, a: r.status == 200 and r.json['parent_provider_uuid'] == U1 and r.json['root_provider_uuid'] == U1, st(400),
        body={'name': 'rp4', 'parent_provider_uuid': U1}, pre=grand)
    sib = [('POST', rp, {'name': 'rp4', 'uuid': U4, 'parent_provider_uuid': U1}),
           ('POST', rp, {'name': 'rp5', 'uuid': U5, 'parent_provider_uuid': U1})]
    add('reparenting', 're-parent below a sibling (same tree)', 'PUT', '%s/%s' % (rp, U5),
        lambda r, a: r.status == 200 and r.json['parent_provider_uuid'] == U4 and r.json['root_provider_uuid'] == U1, st(400),
        body={'name': 'rp5', 'parent_provider_uuid': U4}, pre=sib)
    # ---- 1.38
    add('consumer_type', 'PUT with consumer_type', 'PUT', '/allocations/%s' % C2, st(204), st(400),
        body=lambda v, g: alloc_body(v, consumer_type=True), route=pa)
    add('consumer_type', 'PUT without consumer_type', 'PUT', '/allocations/%s' % C2, st(400), st(204),
        body=lambda v, g: alloc_body(v, consumer_type=False), route=pa)
    add('consumer_type', 'POST with consumer_type', 'POST', '/allocations', st(204), st(400),
        body=lambda v, g: post_alloc_body(v, consumer_type=True), route=po)
    add('consumer_type', 'POST without consumer_type', 'POST', '/allocations', st(400), st(204),
        body=lambda v, g: post_alloc_body(v, consumer_type=False), route=po)
    add('consumer_type', 'reshaper with consumer_type', 'POST', '/reshaper', st(204), st(400),
        body=lambda v, g: reshaper_body(v, g, consumer_type=True), route=rs)
    add('consumer_type', 'reshaper without consumer_type', 'POST', '/reshaper', st(400), st(204),
        body=lambda v, g: reshaper_body(v, g, consumer_type=False), route=rs)
    add('consumer_type', 'GET consumer allocations', 'GET', '/allocations/%s' % C1,
        lambda r, a: walk(r, ['consumer_type']) == 'INSTANCE', lacks([], 'consumer_type'))
    add('consumer_type', 'GET allocations of a consumer written below 1.38', 'GET', '/allocations/%s' % C3,
        lambda r, a: walk(r, ['consumer_type']) == 'unknown', lacks([], 'consumer_type'))
    us = T('/usages', 'GET')
    add('consumer_type', 'usages consumer_type filter', 'GET', '/usages?project_id=%s&consumer_type=INSTANCE' % P1,
        st(200), st(400), route=us)
    add('consumer_type', 'usages grouped by type', 'GET', '/usages?project_id=%s' % P1,
        lambda r, a: walk(r, ['usages']) == {'INSTANCE': {'VCPU': 1, 'consumer_count': 1}},
        lambda r, a: walk(r, ['usages']) == {'VCPU': 1}, route=us)
    # ---- 1.39
    add('any_traits', 'required=in: on listing', 'GET', '%s?required=in:CUSTOM_T1,CUSTOM_T2' % rp,
        lambda r, a: r.status == 200 and uuids(r) == [U1, U2], st(400))
    add('any_traits', 'required=in: on candidates', 'GET', CANDS + '&required=in:CUSTOM_T1,CUSTOM_T3',
        lambda r, a: r.status == 200 and len(r.json['allocation_requests']) == 1, st(400), route=ca)
    add('any_traits', 'repeated required on listing', 'GET', '%s?required=CUSTOM_T2&required=CUSTOM_T1' % rp,
        lambda r, a: r.status == 200 and uuids(r) == [],
        lambda r, a: (r.status == 200 and uuids(r) == [U1]) or r.status == 400)
    return L


ROUTE_OF_PATH = [(re.compile('^' + re.sub(r'\{[a-z_]+\}', '[^/]+', t) + '$'), t) for t in DOC_PATHS]


def template_of(path):
    p = path.split('?')[0]
    for rx, t in ROUTE_OF_PATH:
        if rx.match(p):
            return t
    return None


def feature_table_agreement(chk, pred, probes):
    lean_feats = {f['tag']: f for f in pred['features']}
    # the two hand-written feature lists (Lean table, DOC_FEATURES here) must name the same features and versions
    for tag, n in sorted(DOC_FEATURES.items()):
        lf = lean_feats.get(tag)
        if lf is None or lf['minor'] != n:
            chk.violation('correspondence', 'feature-table:%s' % tag,
                          'documented version 1.%d, Lean feature table says %r' % (n, lf and lf['minor']), {'tag': tag})
    for tag in lean_feats:
        if tag not in DOC_FEATURES:
            chk.violation('correspondence', 'feature-table:%s' % tag, 'feature of the Lean table has no probe', {'tag': tag})
    probed = set(p.tag for p in probes)
    for tag in DOC_FEATURES:
        if tag not in probed:
            raise RuntimeError('feature %s has no probe' % tag)


def part_b(cx, gens, thorough, probe_index):
    chk, pred = cx.chk, cx.pred
    lean_feats = {f['tag']: f for f in pred['features']}
    snap = cx.app.snapshot()
    cases = [c for c in header_cases() if c[4][0] == 'accept']
    for p in [feature_probes()[probe_index]]:
        n = DOC_FEATURES[p.tag]
        lf = lean_feats.get(p.tag)
        for case in cases:
            label, version, extra, key, doc = case
            v = doc[1]
            cx.app.restore(snap)
            for (pm, pp, pb) in p.pre:
                pr = cx.app.call(pm, pp, pb)
                if pr.status >= 300:
                    raise RuntimeError('probe %s: preparing request %s %s answered %s' % (p.name, pm, pp, pr.status))
            method, path, body = p.request(v, gens)
            r = cx.call(method, path, case, body=body, origin=p.origin, **p.kw)
            chk.evaluation(['B', p.tag, p.name, label])
            chk.tally('feature_probes', '1.%02d %s' % (n, p.tag))
            route = p.route or (template_of(path), method)
            # documented expectation
            rn, rbelow = DOC_ROUTES.get(route, (0, None))
            if p.route is not None and v < rn:
                want, okay = 'status %s (route not yet introduced)' % rbelow, r.status == rbelow
            elif v >= n:
                want, okay = 'present', bool(p.present(r, cx.app))
            else:
                want, okay = 'absent', bool(p.absent(r, cx.app))
            replay = {'feature': p.tag, 'documented_version': '1.%d' % n, 'probe': p.name, 'method': method, 'path': path,
                      'request_headers': req_headers(case), 'body': body, 'expected': want,
                      'observed': {'status': r.status, 'json': clip(r.json),
                                   'headers': {k: r.headers[k] for k in r.headers if k in
                                               ('last-modified', 'cache-control', 'location', 'openstack-api-version')}},
                      'state': 'harness.props.c14.build_state'}
            if not okay:
                chk.violation('monitor', 'feature:%s:%s' % (p.tag, p.name),
                              'at version header %r the feature (documented from 1.%d) should be %s' % (label, n, want), replay)
            # Lean side: implementedAt (from the generated gates / windows) says whether the code has it on
            if lf is not None and not (p.route is not None and v < rn):
                lean_on = lf['implemented'][v]
                obs_on = bool(p.present(r, cx.app)) if lean_on else not bool(p.absent(r, cx.app))
                if lean_on != (v >= n) or (lean_on and not obs_on) or ((not lean_on) and obs_on):
                    chk.violation('correspondence', 'feature-sites:%s:%s' % (p.tag, p.name),
                                  'Lean implementedAt(1.%d) = %s from sites %s, application shows otherwise'
                                  % (v, lean_on, lf['gates'] + lf['windows']), replay)
    cx.app.restore(snap)


def clip(j):
    s = json.dumps(j, default=str)
    return j if len(s) < 600 else s[:600] + '...'


def part_d(cx, defect_index):
    """explicit probes of the suspected defects, under every accepted header case"""
    cases = [c for c in header_cases() if c[4][0] == 'accept']
    snap = cx.app.snapshot()
    seen = {}
    for d in [HEADER_DEFECTS[defect_index]]:
        before = len([v for v in cx.chk.violations if v[1] == d['signature']])
        for case in cases:
            cx.app.restore(snap)
            cx.call(d['method'], d['path'], case, origin=d['origin'], **d['kw'])
            cx.chk.evaluation(['D', d['signature'], case[0]])
        after = len([v for v in cx.chk.violations if v[1] == d['signature']])
        seen[d['signature']] = after - before
    cx.app.restore(snap)
    return seen


BELOW_ROUTES = sorted(k for k, (n, _b) in DOC_ROUTES.items() if n > 0)


def part_e(cx, route_index):
    """a route that is not yet introduced answers its documented 404/405 whatever the Accept / Content-Type"""
    chk = cx.chk
    template, method = BELOW_ROUTES[route_index]
    n, below = DOC_ROUTES[(template, method)]
    path = concretise(template)
    snap = cx.app.snapshot()
    cases = [c for c in header_cases() if c[4][0] == 'accept' and c[4][1] < n]
    jb = {'body': {}} if method in ('PUT', 'POST') else {}
    variants = [('accept', 'text/plain', dict(jb, accept='text/plain')), ('accept', '*/*', dict(jb, accept='*/*')),
                ('accept', 'absent', dict(jb, accept=None))]
    if method in ('PUT', 'POST'):
        variants += [('content-type', 'text/plain', {'raw_body': b'{}', 'content_type': 'text/plain'}),
                     ('content-type', 'absent, no body', {})]
    for case in cases:
        for vname, vdetail, kw in variants:
            cx.app.restore(snap)
            r = cx.call(method, path, case, **kw)
            chk.evaluation(['E', template, method, case[0], vname, vdetail])
            chk.tally('below_introduction', '%s %s' % (method, template))
            if r.status != below:
                sig = 'route-below-introduction:%s %s:%s' % (method, template, vname)
                chk.violation('monitor', sig,
                              'route introduced in 1.%d answers %d instead of the documented %d at version header %r'
                              % (n, r.status, below, case[0]) + (' [SUSPECTED_DEFECT]' if sig in SUSPECT_SIGNATURES else ''),
                              {'method': method, 'path': path, 'request_headers': dict(req_headers(case), **{
                                  k.replace('_', '-'): v for k, v in kw.items() if k in ('accept', 'content_type')}),
                               'variant': '%s: %s' % (vname, vdetail), 'body': kw.get('body'),
                               'raw_body': repr(kw.get('raw_body')), 'expected': below, 'observed': r.status})
    cx.app.restore(snap)


_W = {}


def _worker_init(pred, thorough):
    from harness.app import App
    app = App()
    _W.update(app=app, gens=build_state(app), pred=pred, thorough=thorough)


def _worker(item):
    kind, idx = item
    rec = Recorder()
    cx = Ctx(rec, _W['app'], _W['pred'])
    extra = None
    if kind == 'A':
        part_a(cx, _W['thorough'], idx)
    elif kind == 'B':
        part_b(cx, _W['gens'], _W['thorough'], idx)
    elif kind == 'E':
        part_e(cx, idx)
    else:
        extra = part_d(cx, idx)
    rec.cov['responses_with_header_check'] = cx.n_header_checks
    return item, rec, extra


def run(chk):
    import multiprocessing
    thorough = chk.tier == 'thorough'
    if not getattr(chk, 'no_lean', False):
        chk.lean_stage(META['lean_module'])
    pred = lean_predictions()
    probes = feature_probes()
    feature_table_agreement(chk, pred, probes)
    cases = header_cases()
    items = [('B', i) for i in range(len(probes))] + [('A', i) for i in range(len(cases))] + \
            [('D', i) for i in range(len(HEADER_DEFECTS))] + \
            [('E', i) for i in range(len(BELOW_ROUTES))]
    nproc = max(1, min(int(os.environ.get('VERIF_JOBS', '8')), os.cpu_count() or 1))
    chk.cov['matrix_cells'] = 0
    chk.cov['responses_with_header_check'] = 0
    ctx = multiprocessing.get_context('fork')
    with ppool.Pool(ctx, nproc, initializer=_worker_init, initargs=(pred, thorough)) as pool:
        results = pool.map(_worker, items, chunksize=1)
    seen = {}
    for item, rec, extra in sorted(results, key=lambda x: (x[0][0], x[0][1])):
        rec.merge_into(chk)
        if extra:
            seen.update(extra)
    templates, methods = matrix_axes(pred)
    chk.cov['matrix_dimensions'] = {'header_cases': len(cases), 'path_templates': len(templates), 'methods': len(methods)}
    chk.cov['feature_probes_defined'] = len(probes)
    chk.cov['features'] = len(DOC_FEATURES)
    for d in SUSPECTED_DEFECTS:
        if d.get('part') == 'E':
            seen[d['signature']] = len([v for v in chk.violations if v.signature == d['signature']])
    chk.cov['suspected_defects'] = [{'signature': d['signature'], 'what': d['what'],
                                     'reproduced_on_requests': seen.get(d['signature'], 0)} for d in SUSPECTED_DEFECTS]
    chk.sample({'part': 'A', 'example': 'DELETE /resource_providers/{uuid}/inventories',
                'lean': {k: pred['respond'][k]['/resource_providers/{uuid}/inventories']['DELETE']
                         for k in ('ver:1:4', 'ver:1:5', 'latest', 'absent', 'ver:1:40', 'malformed')}})
    chk.sample({'part': 'B', 'features': {t: '1.%d' % n for t, n in sorted(DOC_FEATURES.items(), key=lambda x: x[1])[:6]},
                'probes_of_consumer_type': [p.name for p in probes if p.tag == 'consumer_type']})
    chk.cov['workers'] = nproc
    chk.cov['lean_tables'] = {'routes': len(pred['routes']), 'features': len(pred['features']),
                              'gate_sites': sum(len(f['gates']) for f in pred['features']),
                              'window_sites': sum(len(f['windows']) for f in pred['features']),
                              'schema_chains': len(pred['schema_chains'])}
    chk.cov['exhaustive'] = True
    chk.cov['rule'] = ('A: every version-header case (1.0..1.39, none, latest, other service type; 1.40/1.41/1.100/0.9/0.0/2.0/'
                       '2.39/10.1; malformed 1.x, garbage, 1, 1.2.3, v1.5) x every declared path template + 3 undeclared paths x '
                       'GET/PUT/POST/DELETE/PATCH/HEAD/OPTIONS (rejected headers in quick tier: GET/PUT/PATCH), one request per '
                       'cell against a fixed state where every named entity exists; a cell is a distinct case. '
                       'B: every probe of every feature x 40 versions + none + latest + other service type; a case is '
                       '(feature, probe, header case). C: header check on every response of A, B, D with an accepted version. '
                       'D: every suspected-defect header probe x 43 accepted header cases. '
                       'E: every route with a documented first version N > 1.0 x every accepted header case below N x '
                       'Accept text/plain, */*, absent (+ Content-Type text/plain, no body for PUT/POST).')
    chk.assumptions += ['Routes matches a concrete URL to its path template as the templates read (trusted; probed on one '
                        'concrete instance per template)',
                        'the documented surface is rest_api_version_history.rst + api-ref as transcribed in DOC_ROUTES / '
                        'DOC_FEATURES (harness/props/c14.py) and documentedRoutes / features (lean/Placement/Model/Versions.lean); '
                        'the two transcriptions are compared on every run']
