from harness import hist

META = {
    'property_id': 'C10', 'lean_module': 'Placement.Props.C10', 'category': 'proof',
    'text': 'Lean 4 theorems: generations are monotone under every request of the model, strictly increase on the changes '
            'the property lists, and are unchanged by rejected requests (all states); tied to the code by differential '
            'histories comparing generation columns, and a monitor on the real tables, the response bodies and - after every request that '
            'moved a generation - every route that reports one (the listing and the four per-provider routes).',
    'level_note': 'trusted: Lean kernel; correspondence sampled.',
    'technique': 'Lean 4 proof (per-handler lemmas, induction over histories) + model/implementation correspondence',
    'design_ref': 'DESIGN.md section 5, C10',
}

PROFILE = {'weights': {'aggs_set': 8, 'rp_traits_set': 8, 'rp_traits_delete': 2, 'inv_delete': 5, 'inv_add': 6, 'reshape': 8,
                       'alloc_post': 12},
           'n_rps': 5}


def run(chk):
    if not getattr(chk, 'no_lean', False):
        chk.lean_stage(META['lean_module'], exe=True)
    n = 400 if chk.tier == 'quick' else 8000
    hist.run_histories(chk, n, 40, PROFILE, ['C10'])
    chk.cov['rule'] = ('random histories of 40 requests over every write path (bulk POST, reshaper, inventory deletion, trait '
                       'clearing, aggregates at 1.1 vs 1.19); generation columns and returned generations compared after every '
                       'request; distinct = (operation, status) pairs')
