from harness import hist

META = {
    'property_id': 'C04', 'lean_module': 'Placement.Props.C04', 'category': 'proof',
    'text': 'Lean 4 theorems: in the handler model every rejected write leaves the core tables equal (all states, all '
            'requests), multi-entity writes take effect inside one transaction; the model is tied to the code by '
            'differential histories with full table dumps before/after every rejected request and a table-equality '
            'monitor on the real database.',
    'level_note': 'trusted: Lean kernel; correspondence sampled; transaction atomicity of SQLite/enginefacade.',
    'technique': 'Lean 4 proof (case analysis over failing stages) + model/implementation correspondence',
    'design_ref': 'DESIGN.md section 5, C04',
}

PROFILE = {'weights': {'alloc_put': 22, 'alloc_post': 14, 'reshape': 10, 'inv_set': 12, 'inv_update': 6, 'inv_delete': 5,
                       'rp_traits_set': 6, 'aggs_set': 6, 'rp_delete': 4},
           'n_rps': 5}


def run(chk):
    if not getattr(chk, 'no_lean', False):
        chk.lean_stage(META['lean_module'], exe=True)
    n = 400 if chk.tier == 'quick' else 6000
    hist.run_histories(chk, n, 40, PROFILE, ['C04'])
    rej = sum(v for k, v in chk.cov.get('by_op_status', {}).items() if k.split()[-1][0] in '45')
    chk.cov['rejected_requests'] = rej
    chk.cov['rule'] = ('random histories of 40 requests; stale/ahead generations, unknown providers and classes, capacity and '
                       'unit violations on the n-th of m entries, inventory in use; after every rejected request the real '
                       'tables (minus project/user/consumer-type/aggregate-uuid registries) must equal the tables before; '
                       'distinct = (operation, status) pairs')
