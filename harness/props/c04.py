from harness import conc, hist

META = {
    'property_id': 'C04', 'lean_module': 'Placement.Props.C04', 'category': 'proof',
    'text': 'Lean 4 theorems: in the handler model every rejected write leaves the core tables equal (all states, all '
            'requests), multi-entity writes take effect inside one transaction; the model is tied to the code by '
            'differential histories with full table dumps before/after every rejected request and a table-equality '
            'monitor on the real database; beyond sequences, every interleaving of pairs of racing writes on the real application is judged by the serial-order oracle (a request answered with an error leaves no trace also when another request is in flight).',
    'level_note': 'trusted: Lean kernel; correspondence sampled; transaction atomicity of SQLite/enginefacade.',
    'technique': 'Lean 4 proof (case analysis over failing stages) + model/implementation correspondence',
    'design_ref': 'DESIGN.md section 5, C04',
}

PROFILE = {'weights': {'alloc_put': 22, 'alloc_post': 14, 'reshape': 10, 'inv_set': 12, 'inv_update': 6, 'inv_delete': 5,
                       'rp_traits_set': 6, 'aggs_set': 6, 'rp_delete': 4},
           'n_rps': 5}

RACES = {'n_rps': 2, 'setup_ops': 16, 'existing_consumer_bias': 0.5, 'model': False,
         'setup_weights': {'rp_delete': 0, 'alloc_put': 25, 'alloc_delete': 1, 'rc_rename': 0, 'rc_delete': 0, 'trait_delete': 0,
                           'rp_update': 0},
         'race_kinds': {'alloc_put': 8, 'alloc_post': 3, 'inv_set': 3, 'inv_update': 2, 'reshape': 1, 'aggs_set': 3, 'rp_traits_set': 2},
         'p_three': 0.0}


def run(chk):
    if not getattr(chk, 'no_lean', False):
        chk.lean_stage(META['lean_module'], exe=True)
    n = 400 if chk.tier == 'quick' else 6000
    hist.run_histories(chk, n, 40, PROFILE, ['C04'])
    # beyond sequences: a rejected request must leave no trace also when another request is in flight: every interleaving
    # of request pairs on the real application; the final tables must be those of the SUCCESSFUL requests alone, run
    # one after the other in some order
    conc.run_races(chk, ['C04'], 64 if chk.tier == 'quick' else 2000, 120, RACES)
    rej = sum(v for k, v in chk.cov.get('by_op_status', {}).items() if k.split()[-1][0] in '45')
    chk.cov['rejected_requests'] = rej
    chk.cov['rule'] = ('random histories of 40 requests; stale/ahead generations, unknown providers and classes, capacity and '
                       'unit violations on the n-th of m entries, inventory in use; after every rejected request the real '
                       'tables (minus project/user/consumer-type/aggregate-uuid registries) must equal the tables before; '
                       'distinct = (operation, status) pairs; plus every interleaving of pairs of racing writes, judged by the serial-order oracle')
