"""C03  Allocation candidates are exactly the combinations the request describes.

Lean stage: `Placement.Props.C03` (the brute-force enumerator `Spec.candidates` returns exactly the
combinations satisfying the declarative `Spec.IsCandidate`, each once).
Exploration: states generated in the scope of the property are installed in the real service through the
API; for each state several queries aimed at it are sent to `GET /allocation_candidates` and evaluated by the
compiled Lean enumerator on the dump of the real tables; the two SETS of (allocations, mappings) must be equal.
Every disagreement is a violation of the property on the real code (the enumerator is the property)."""
from harness import ppool
import copy
import hashlib
import itertools
import json
import multiprocessing as mp
import os
import random
import time
import traceback

from harness import cands, mergetap

META = {
    'property_id': 'C03', 'lean_module': 'Placement.Props.C03', 'category': 'proof',
    'text': 'Lean 4: the property text is the decidable predicate Spec.IsCandidate (anchor tree, sharing providers '
            'linked by an aggregate, one provider per suffixed group, unsuffixed group spread over tree and sharing '
            'providers with collective traits, member_of directly or through the root, isolate, same_subtree, '
            'root_required, capacity / max_unit on summed amounts, one provider per tree below 1.29); the executable '
            'enumerator Spec.candidates is proved sound, complete and duplicate-free with respect to it for every '
            'state and query.  The real service is compared with the compiled enumerator on generated states '
            '(<= 7 providers, <= 3 trees of depth <= 3, sharing providers, fractional ratios, reserved = total, steps, '
            'unit limits, partial and excessive usage) and queries aimed at them; the response must be the same set.  '
            'In the same runs the merge stage of the code (_merge_candidates: products per anchor, group policy, same '
            'subtree, consolidation over shared mutable objects, capacity re-check, de-duplication) is compared call by '
            'call with its Lean model (Model/Merge.lean), the real inputs being captured with object identities.',
    'level_note': 'trusted: Lean kernel; the enumerator is the specification (Appendix D of DESIGN.md, corrected '
                  'against the documentation); query-string parsing is exercised but not modelled; the tie to the '
                  'code is the sampled equality real response = enumerator output, and real _merge_candidates = '
                  'Merge.mergeCandidates on the captured inputs; the per-group searches (SQL) are tied to the specification '
                  'only through the end result.',
    'technique': 'Lean 4 proof (enumerator = declarative predicate) + specification/implementation differential runs',
    'design_ref': 'DESIGN.md section 5, C03; Appendix D',
}



# ------------------------------------------------------------------------------------------------
# one request against both sides
# ------------------------------------------------------------------------------------------------
def ask_real(a, q, limit=None):
    url, ver = cands.render(q, limit)
    r = a.call('GET', url, version=ver)
    return url, ver, r


def real_set(r, with_maps):
    lst = [cands.canon_alloc_request(x, with_maps) for x in r.json['allocation_requests']]
    return lst


def ask_lean(m, q):
    r = m.send({'cmd': 'candidates', 'query': cands.lean_query(q)})
    if 'error' in r:
        raise RuntimeError('driver: %s' % r['error'])
    return r


def lean_set(r, with_maps):
    return set(cands.canon_lean_candidate(c, with_maps) for c in r['candidates'])


_TAP = mergetap.MergeTap()


def compare(a, m, q, tap=False):
    """-> dict(status_real, status_lean, real(list), lean(set), missing, extra, dup)"""
    with_maps = q['mv'] >= 34
    _TAP.calls = []
    url, ver, r = ask_real(a, q)
    merge_vio, merge_n = _TAP.check(m) if tap else ([], 0)
    lr = ask_lean(m, q)
    out = {'url': url, 'version': ver, 'status_real': r.status, 'status_lean': lr['status'], 'merge_vio': merge_vio,
           'merge_calls': merge_n}
    if r.status != 200 or lr['status'] != 200:
        out.update(real=[], lean=set(), missing=set(), extra=set(), dup=False,
                   body=r.json if r.status != 200 else None)
        return out
    rl = real_set(r, with_maps)
    ls = lean_set(lr, with_maps)
    rs = set(rl)
    out.update(real=rl, lean=ls, missing=ls - rs, extra=rs - ls, dup=with_maps and len(rl) != len(rs),
               summaries=r.json.get('provider_summaries'))
    return out


def disagree(c):
    return c['status_real'] != c['status_lean'] or bool(c['missing']) or bool(c['extra']) or c['dup']


# ------------------------------------------------------------------------------------------------
# attribution of a disagreement to an already known defect of the unchanged code
# ------------------------------------------------------------------------------------------------
class PatchA(object):
    """diagnosis only: run the request with the copy rule of `copy_arr_if_needed` repaired (copy whenever the
    class is requested by several groups).  If the disagreement disappears it is defect A."""

    def __enter__(self):
        from placement.objects import research_context as rc
        self.rc = rc
        self.orig = rc.RequestWideSearchContext.copy_arr_if_needed

        def fixed(ctx, arr):
            if arr.resource_class in ctx.multi_group_rcs:
                return copy.copy(arr)
            return arr
        rc.RequestWideSearchContext.copy_arr_if_needed = fixed

    def __exit__(self, *a):
        self.rc.RequestWideSearchContext.copy_arr_if_needed = self.orig


class PatchP(object):
    """diagnosis only: `_alloc_candidates_multiple_providers` collects the per-anchor requests of the unsuffixed
    group in ONE set whose equality ignores the anchor, so a request served by sharing providers alone survives
    under a single anchor.  Here the union keeps one request per (content, anchor)."""

    def __enter__(self):
        from placement.objects import allocation_candidate as ac
        self.ac = ac
        ar = ac.AllocationRequest
        self.orig = (ac._alloc_candidates_multiple_providers, ar.__eq__, ar.__hash__)
        of, oeq, ohash = self.orig
        flag = {'on': False}

        def eq(s, o):
            return oeq(s, o) and (not flag['on'] or s.anchor_root_provider_uuid == o.anchor_root_provider_uuid)

        def hsh(s):
            return hash((ohash(s), s.anchor_root_provider_uuid)) if flag['on'] else ohash(s)

        def f(rg_ctx, rw_ctx, rp_candidates):
            flag['on'] = True
            try:
                return list(of(rg_ctx, rw_ctx, rp_candidates))
            finally:
                flag['on'] = False
        ar.__eq__, ar.__hash__ = eq, hsh
        ac._alloc_candidates_multiple_providers = f

    def __exit__(self, *a):
        ar = self.ac.AllocationRequest
        self.ac._alloc_candidates_multiple_providers, ar.__eq__, ar.__hash__ = self.orig


class PatchQ(object):
    """diagnosis only: provider summaries are built for the ids in `RPCandidateList.all_rps`, taken as ROOT ids; a
    sharing provider that is a non-root member of a tree which is itself no candidate tree is then missing from
    `summaries_by_id` (KeyError -> 500).  Here the roots of all nominated providers are added."""

    def __enter__(self):
        import sqlalchemy as sa
        from placement.objects import allocation_candidate as ac
        self.ac = ac
        self.orig = ac._alloc_candidates_multiple_providers
        of = ac._alloc_candidates_multiple_providers

        def f(rg_ctx, rw_ctx, rp_candidates):
            if rp_candidates:
                ids = list(rp_candidates.rps)
                rows = rg_ctx.context.session.execute(
                    sa.select(ac._RP_TBL.c.root_provider_id).where(ac._RP_TBL.c.id.in_(ids))).fetchall()
                extra = set(r[0] for r in rows)

                class Ext(type(rp_candidates)):
                    all_rps = property(lambda self: self.rps | self.trees | extra)
                rp_candidates.__class__ = Ext
            return of(rg_ctx, rw_ctx, rp_candidates)
        ac._alloc_candidates_multiple_providers = f

    def __exit__(self, *a):
        self.ac._alloc_candidates_multiple_providers = self.orig


class PatchR(object):
    """diagnosis only: for a group without resources `get_provider_ids_matching` ends with
    `[p for p in provs if p[0] in filtered_rps]`, but `filtered_rps` is the EMPTY set when the group has neither
    required traits nor member_of ("no filtering was performed"), so such a group matches no provider at all and the
    whole response is empty.  Here the empty set keeps its meaning "no positive filter"."""

    def __enter__(self):
        from placement.objects import research_context as rc
        self.rc = rc
        self.orig = rc.get_provider_ids_matching
        of = self.orig

        def f(rg_ctx):
            if rg_ctx.resources:
                return of(rg_ctx)
            filtered, forb = rc.get_provider_ids_for_traits_and_aggs(rg_ctx)
            if filtered is None:
                return []
            provs = rc.get_providers_with_root(rg_ctx.context, filtered, forb)
            return [p for p in provs if (not filtered) or p[0] in filtered]
        rc.get_provider_ids_matching = f

    def __exit__(self, *a):
        self.rc.get_provider_ids_matching = self.orig


def pattern_r(q, v=None):
    return any((not g['resources']) and not g['required'] and not g['member_of'] for g in q['groups'])


def pattern_a(q, v=None):
    seen, multi = set(), False
    for g in cands.all_groups(q):
        for rc, _ in g['resources']:
            if rc in seen:
                multi = True
            seen.add(rc)
    return multi and q['policy'] != 'none'


def pattern_l(q, v=None):
    return q['mv'] >= 36 and any((not g['resources']) and g['in_tree'] for g in q['groups'])


def pattern_p(q, v=None):
    return bool(q['unsuff']) and bool(q['groups']) and (v is None or v.has_sharing)


def pattern_q(q, v=None):
    return bool(q['unsuff']) and (v is None or any(
        cands.SHARE in v.traits.get(u, ()) and p['parent'] is not None for u, p in v.rps.items()))


def relax_l(q):
    q2 = copy.deepcopy(q)
    for g in q2['groups']:
        if not g['resources']:
            g['in_tree'] = None
    return q2


# Known defects of the unchanged code (DESIGN.md section 9 and the report of this slice).  A disagreement is
# attributed to a set of them only if repairing exactly these (code side: diagnostic patch, specification side:
# the defect's effect built into the query) makes the two answers EQUAL; anything else stays a new violation.
EXPLAINERS = [
    {'name': 'A', 'applies': pattern_a, 'patch': PatchA,
     'sig': lambda q: 'c03:amounts-double-counted:class-in-several-groups:policy-%s' % (q['policy'] or 'absent')},
    {'name': 'R', 'applies': pattern_r, 'patch': PatchR,
     'sig': lambda q: 'c03:missing:resourceless-group-without-required-or-member_of:matches-no-provider'},
    {'name': 'L', 'applies': pattern_l, 'relax': relax_l,
     'sig': lambda q: 'c03:in_tree-ignored:resourceless-group'},
    {'name': 'P', 'applies': pattern_p, 'patch': PatchP,
     'sig': lambda q: 'c03:missing:unsuffixed-group-on-sharing-providers-only:kept-under-one-anchor'},
    {'name': 'Q', 'applies': pattern_q, 'patch': PatchQ,
     'sig': lambda q: 'c03:status-500:sharing-provider-below-a-root-of-a-non-candidate-tree'},
]


class _Patches(object):
    def __init__(self, ps):
        self.ps = [p() for p in ps]

    def __enter__(self):
        for p in self.ps:
            p.__enter__()

    def __exit__(self, *a):
        for p in reversed(self.ps):
            p.__exit__(*a)


def compare_under(a, m, q, exps):
    """the comparison with the defects `exps` repaired / built in"""
    q2 = q
    for e in exps:
        if 'relax' in e:
            q2 = e['relax'](q2)
    with _Patches([e['patch'] for e in exps if 'patch' in e]):
        url, ver, r = ask_real(a, q)
    lr = ask_lean(m, q2)
    with_maps = q['mv'] >= 34
    if r.status != 200 or lr['status'] != 200:
        return r.status == lr['status']
    rl = real_set(r, with_maps)
    return set(rl) == lean_set(lr, with_maps) and not (with_maps and len(rl) != len(set(rl)))


def explain_known(a, m, q, v=None):
    """-> list of signatures of known defects that fully explain the disagreement, or None"""
    app = [e for e in EXPLAINERS if e['applies'](q, v)]
    for k in range(1, len(app) + 1):
        for sub in itertools.combinations(app, k):
            try:
                if compare_under(a, m, q, sub):
                    return [e['sig'](q) for e in sub]
            except Exception:
                continue
    return None


# ------------------------------------------------------------------------------------------------
# classification of a disagreement nothing known explains
# ------------------------------------------------------------------------------------------------
def _requested_totals(q):
    t = {}
    for g in cands.all_groups(q):
        for rc, n in g['resources']:
            t[rc] = t.get(rc, 0) + n
    return t


def _relaxations(q):
    """(rule name, relaxed query) in the order in which they are tried"""
    out = []
    if q['mv'] < 29:
        q2 = copy.deepcopy(q)
        q2['mv'] = 29
        out.append(('one-provider-per-tree-below-1.29', q2))
    for i, g in enumerate(cands.all_groups(q)):
        kind = 'unsuffixed' if g['suffix'] == '' else ('resourceless' if not g['resources'] else 'suffixed')
        for fld, empty, name in (('in_tree', None, 'in_tree'), ('forbidden', [], 'forbidden-trait'),
                                 ('required', [], 'required-trait'), ('member_of', [], 'member_of'),
                                 ('forbidden_aggs', [], 'forbidden-aggregate')):
            if g[fld]:
                q2 = copy.deepcopy(q)
                cands.all_groups(q2)[i][fld] = empty
                out.append(('%s:%s-group' % (name, kind), q2))
    if q['policy'] == 'isolate':
        q2 = copy.deepcopy(q)
        q2['policy'] = 'none'
        out.append(('isolate', q2))
    if q['same_subtree']:
        q2 = copy.deepcopy(q)
        q2['same_subtree'] = []
        if not any(not g['resources'] for g in q2['groups']):
            out.append(('same_subtree', q2))
        else:
            # resourceless groups need a same_subtree of their own: keep singletons
            q2['same_subtree'] = [[g['suffix']] for g in q2['groups'] if not g['resources']]
            out.append(('same_subtree', q2))
    if q['root_required'] or q['root_forbidden']:
        q2 = copy.deepcopy(q)
        q2['root_required'], q2['root_forbidden'] = [], []
        out.append(('root_required', q2))
    return out


def classify_extra(m, q, cand):
    """which rule of the statement does a returned candidate violate?"""
    with_maps = q['mv'] >= 34
    placed = {}
    for rp, rc, n in cand[0]:
        placed[rc] = placed.get(rc, 0) + n
    if placed != _requested_totals(q):
        return 'amounts-differ-from-request'
    for name, q2 in _relaxations(q):
        try:
            if cand in lean_set(ask_lean(m, q2), with_maps):
                return 'violates-' + name
        except Exception:
            pass
    # nothing but capacity, unit limits, or the anchoring of the providers remains
    if len(set(rp for rp, _, _ in cand[0])) > 1:
        return 'violates-capacity-units-or-anchoring'
    return 'violates-capacity-or-units'


def _simplifications(q):
    """smaller queries (each drops one thing) that are still well-formed"""
    out = []
    for name, q2 in _relaxations(q):
        out.append(q2)
    gs = q['groups']
    for i, g in enumerate(gs):
        q2 = copy.deepcopy(q)
        s = g['suffix']
        del q2['groups'][i]
        q2['same_subtree'] = [[x for x in t if x != s] for t in q2['same_subtree']]
        q2['same_subtree'] = [t for t in q2['same_subtree'] if t]
        if len(q2['groups']) < 2 and q2['policy'] is not None and q['policy'] is None:
            q2['policy'] = None
        if any(gg['resources'] for gg in cands.all_groups(q2)):
            out.append(q2)
    if q['unsuff'] and any(g['resources'] for g in gs):
        q2 = copy.deepcopy(q)
        q2['unsuff'] = None
        out.append(q2)
    for i, g in enumerate(cands.all_groups(q)):
        if len(g['resources']) > 1:
            for j in range(len(g['resources'])):
                q2 = copy.deepcopy(q)
                del cands.all_groups(q2)[i]['resources'][j]
                out.append(q2)
    if q['mv'] != 39:
        q2 = copy.deepcopy(q)
        q2['mv'] = 39
        out.append(q2)
    return out


def minimise(a, m, q, kind, budget_s=6.0):
    """greedy: drop parts of the query while the same kind of unexplained disagreement persists"""
    t0 = time.time()
    cur = q
    progress = True
    while progress and time.time() - t0 < budget_s:
        progress = False
        for q2 in _simplifications(cur):
            if not cands.wellformed(q2):
                continue
            try:
                c = compare(a, m, q2)
            except Exception:
                continue
            if c['status_real'] != 200 or c['status_lean'] != 200:
                continue
            same = (kind == 'missing' and c['missing']) or (kind == 'extra' and c['extra']) or (kind == 'dup' and c['dup'])
            if same and explain_known(a, m, q2) is None:
                cur = q2
                progress = True
                break
    return cur


def query_features(q):
    class V(object):
        has_sharing = False
        has_nesting = False
    f = cands.features(q, V)
    if cands.all_groups(q) and q['unsuff']:
        f.add('unsuffixed')
    if pattern_a(q) or _shared_class(q):
        f.add('class-in-several-groups')
    return f


def _shared_class(q):
    seen = set()
    for g in cands.all_groups(q):
        for rc, _ in g['resources']:
            if rc in seen:
                return True
            seen.add(rc)
    return False


def report(a, m, dump, q, c, out):
    """turn one disagreement into violations (appended to out['violations'])"""
    def add(sig, detail, qq, cc):
        out['violations'].append({
            'kind': 'monitor', 'signature': sig, 'detail': detail,
            'replay': {'type': 'state+query', 'module': 'harness.props.c03', 'dump': dump, 'query': qq,
                       'method': 'GET', 'url': cc['url'], 'version': cc['version'],
                       'expected': {'status': cc['status_lean'], 'allocation_requests': [cands.show(x) for x in sorted(cc['lean'])]},
                       'observed': {'status': cc['status_real'], 'allocation_requests': [cands.show(x) for x in cc['real']],
                                    'body': cc.get('body')},
                       'missing': [cands.show(x) for x in sorted(cc['missing'])],
                       'extra': [cands.show(x) for x in sorted(cc['extra'])]}})
    known = explain_known(a, m, q)
    if known is not None:
        for sig in known:
            add(sig, 'status %s/%s, %d missing, %d extra candidates for %s' % (
                c['status_real'], c['status_lean'], len(c['missing']), len(c['extra']), c['url']), q, c)
        return
    if c['status_real'] != c['status_lean']:
        add('c03:status:%s-expected-%s' % (c['status_real'], c['status_lean']),
            'status %s, specification %s for %s' % (c['status_real'], c['status_lean'], c['url']), q, c)
        return
    kind = 'extra' if c['extra'] else ('missing' if c['missing'] else 'dup')
    # the first few unexplained disagreements of a worker are minimised (query parts dropped while the disagreement
    # persists) and carry the remaining features in their signature; later ones are classified as they are
    global _MINIMISED
    if _MINIMISED < 2:
        _MINIMISED += 1
        qm = minimise(a, m, q, kind)
        cm = compare(a, m, qm)
        if not disagree(cm) or cm['status_real'] != 200:
            qm, cm = q, c
        feats = ':' + '+'.join(sorted(query_features(qm)))
    else:
        qm, cm, feats = q, c, ''
    if cm['extra']:
        rule = classify_extra(m, qm, sorted(cm['extra'])[0])
        add('c03:extra:%s%s' % (rule, feats),
            'returned but not described by the request: %s' % json.dumps(cands.show(sorted(cm['extra'])[0])), qm, cm)
    elif cm['missing']:
        add('c03:missing%s' % feats,
            'described by the request but not returned: %s' % json.dumps(cands.show(sorted(cm['missing'])[0])), qm, cm)
    else:
        add('c03:duplicate%s' % feats, 'the same (allocations, mappings) returned twice', qm, cm)


_MINIMISED = 0


# ------------------------------------------------------------------------------------------------
# worker
# ------------------------------------------------------------------------------------------------
def case(args):
    seed, nq, p_old = args
    rng = random.Random(seed)
    out = {'seed': seed, 'violations': [], 'evals': 0, 'feat': {}, 'pairs': {}, 'by_mv': {}, 'sizes': {},
           'kinds': {}, 'distinct': [], 'effects': {}, 'samples': [], 'status': {}}
    try:
        a, m = cands.app(), cands.model()
        spec = cands.gen_state(rng)
        cands.build_state(a, spec)
        dump = a.dump()
        stale = cands.derive_roots(dump)
        if stale:
            out['violations'].append({'kind': 'monitor', 'signature': '%s:root-column-differs-from-parent-links' % 'c03',
                                      'detail': 'after a state built by legal requests (creations and moves): %s' % stale[:3],
                                      'replay': {'type': 'state', 'seed': seed, 'state': spec}})
        if not cands.same_state(spec, dump):
            raise RuntimeError('state built through the API differs from its specification')
        cands.load_model(m, a, dump)
        v = cands.View(dump)
        out['kinds'][spec['kind']] = 1
        roots = {u: p['root'] for u, p in dump['rps'].items()}
        for k in range(nq):
            r_ = rng.random()
            if r_ < p_old:
                q = cands.gen_query(rng, v, old=True)
            elif r_ < p_old + 0.55:
                q = cands.gen_query_witness(rng, v)
            else:
                q = cands.gen_query(rng, v)
            _TAP.install()
            c = compare(a, m, q, tap=True)
            out['evals'] += 1
            out['merge_calls'] = out.get('merge_calls', 0) + c['merge_calls']
            for sig, detail, cmd in c['merge_vio']:
                out['violations'].append({'kind': 'correspondence', 'signature': sig, 'detail': detail,
                                          'replay': {'type': 'state+query', 'module': 'harness.props.c03', 'dump': dump, 'query': q,
                                                     'method': 'GET', 'url': c['url'], 'version': c['version'], 'merge_input': cmd}})
            st = '%s/%s' % (c['status_real'], c['status_lean'])
            out['status'][st] = out['status'].get(st, 0) + 1
            f = sorted(cands.features(q, v))
            for x in f:
                out['feat'][x] = out['feat'].get(x, 0) + 1
            for i in range(len(f)):
                for j in range(i + 1, len(f)):
                    key = f[i] + '|' + f[j]
                    out['pairs'][key] = out['pairs'].get(key, 0) + 1
            mvk = str(q['mv'])
            out['by_mv'][mvk] = out['by_mv'].get(mvk, 0) + 1
            n = len(c['lean'])
            b = '0' if n == 0 else ('1' if n == 1 else ('2-5' if n <= 5 else ('6-20' if n <= 20 else '>20')))
            out['sizes'][b] = out['sizes'].get(b, 0) + 1
            if n:
                h = hashlib.md5(json.dumps([dump['invs'], dump['allocs'], dump['rp_traits'], dump['rp_aggs'],
                                            sorted(dump['rps'].items()), cands.lean_query(q)], sort_keys=True).encode()).hexdigest()
                out['distinct'].append(h)
                eff = set()
                for cand in c['lean']:
                    rps = set(rp for rp, _, _ in cand[0])
                    if len(set(roots[x] for x in rps)) > 1:
                        eff.add('candidate-spans-trees(sharing)')
                    if len(rps) > len(set(roots[x] for x in rps)):
                        eff.add('candidate-uses-several-providers-of-a-tree')
                    if any(ps and not any(rp in ps for rp, _, _ in cand[0]) for s, ps in cand[1]):
                        eff.add('mapping-of-resourceless-group')
                for e in eff:
                    out['effects'][e] = out['effects'].get(e, 0) + 1
                if len(out['samples']) < 1 and n <= 4 and len(f) >= 4:
                    out['samples'].append({'url': c['url'], 'version': c['version'], 'providers': len(dump['rps']),
                                           'expected=observed': [cands.show(x) for x in sorted(c['lean'])][:2]})
            if disagree(c):
                report(a, m, dump, q, c, out)
    except BaseException:      # incl. an escaped RequestHang: a dead pool worker would hang the check
        out['error'] = traceback.format_exc()
    return out


def run_cases(chk, n_states, nq, p_old, procs=None):
    procs = procs or min(16, os.cpu_count() or 4)
    ctx = mp.get_context('fork')
    seeds = [chk.seed * 1000003 + i for i in range(n_states)]
    errors = []
    pairs = {}
    with ppool.Pool(ctx, procs, initializer=cands.init_worker) as pool:
        for res in pool.imap_unordered(case, [(s, nq, p_old) for s in seeds], chunksize=4):
            if 'error' in res:
                errors.append(res['error'])
                continue
            chk.cov['evaluations'] += res['evals']
            chk.count('states', 1)
            chk.count('merge_stage_calls_compared_with_model', res.get('merge_calls', 0))
            for h in res['distinct']:
                chk._distinct.add(h)
            for key, tk in (('feat', 'by_feature'), ('by_mv', 'by_microversion'), ('sizes', 'expected_set_size'),
                            ('kinds', 'state_kinds'), ('effects', 'non_trivial_effects'), ('status', 'status_real/spec')):
                for k, n in res[key].items():
                    chk.tally(tk, k, n)
            for k, n in res['pairs'].items():
                pairs[k] = pairs.get(k, 0) + n
            for s in res['samples']:
                chk.sample(s)
            for x in res['violations']:
                chk.violation(x['kind'], x['signature'], x['detail'], x['replay'])
    if errors:
        if len(errors) > max(3, n_states // 100):
            raise RuntimeError('worker errors (%d):\n%s' % (len(errors), errors[0]))
        chk.notes.append('%d state(s) skipped after a worker error: %s' % (len(errors), errors[0][-300:]))
    poss = cands.possible_pairs()
    cnt = {('%s|%s' % tuple(sorted(p))): pairs.get('%s|%s' % tuple(sorted(p)), 0) for p in poss}
    chk.cov['feature_pairs'] = {'possible': len(poss), 'covered': sum(1 for v in cnt.values() if v > 0),
                                'min_count': min(cnt.values()) if cnt else 0,
                                'least_covered': sorted(cnt.items(), key=lambda kv: kv[1])[:8],
                                'impossible': 'pairs of lt-1.29 with ' + ', '.join(sorted(cands.IMPOSSIBLE_WITH_OLD))}
    return pairs


def run(chk):
    if not getattr(chk, 'no_lean', False):
        chk.lean_stage([META['lean_module'], 'Placement.Props.C03Merge'], exe=True)
    if chk.tier == 'quick':
        n_states, nq = 1600, 4
    else:
        n_states, nq = 32000, 5
    run_cases(chk, n_states, nq, p_old=0.12)
    chk.cov['rule'] = (
        'states: <= 7 providers in <= 3 trees of depth <= 3, sharing providers (root, inside a tree, without aggregate), '
        '3-4 classes, 4 traits, 3 aggregates, inventories from the boundary grid, usage below / at / above capacity, installed '
        'through the API; queries: <= 1 unsuffixed + <= 3 suffixed groups with amounts at remaining capacity +-1, max_unit +-1, '
        'off-step, overlapping classes, every filter and request-wide parameter in every spelling the microversion admits. '
        'evaluation = one (state, query) compared as a set of (allocations, mappings) with the Lean enumerator; '
        'distinct_nontrivial = distinct (state, query) whose expected candidate set is non-empty')


# ------------------------------------------------------------------------------------------------
# replay
# ------------------------------------------------------------------------------------------------
def replay(doc):
    rp = doc['replay']
    cands.init_worker()
    a, m = cands.app(), cands.model()
    cands.build_state(a, rp['dump'])
    dump = a.dump()
    cands.load_model(m, a, dump)
    q = rp['query']
    c = compare(a, m, q)
    print('GET %s   (microversion %s)' % (c['url'], c['version']))
    print('status: real %s, specification %s' % (c['status_real'], c['status_lean']))
    print('returned %d, described by the request %d' % (len(c['real']), len(c['lean'])))
    for x in sorted(c['missing']):
        print('  MISSING  %s' % json.dumps(cands.show(x)))
    for x in sorted(c['extra']):
        print('  EXTRA    %s' % json.dumps(cands.show(x)))
    hit = disagree(c)
    print('REPRODUCED' if hit else 'not reproduced')
    return 1 if hit else 0
