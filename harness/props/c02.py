"""C02  Every allocation candidate can be claimed exactly as returned.

Lean stage: `Placement.Props.C02` (for every combination satisfying `Spec.IsCandidate`: providers exist, suffixed groups
and unsuffixed classes placed in full, amounts are sums, class totals equal the request, the PUT of the request for a
new consumer is accepted; `Spec.summaries` covers every named provider with table-derived values).
Exploration: for states and queries of the C03 generator at every microversion boundary from 1.10, EVERY returned
allocation request is (1) checked against the query (providers exist, placed == asked, group by group when mappings are
exposed), (2) sent unchanged as the allocations of a new consumer on a snapshot of the database and must be answered 204;
`provider_summaries` are compared (3) with values derived from the dump of the real tables at the microversion used and
(4) with the summaries computed by the Lean specification."""
from harness import ppool
import copy
import hashlib
import json
import math
import multiprocessing as mp
import os
import random
import traceback

from harness import cands
from harness.props import c03

META = {
    'property_id': 'C02', 'lean_module': 'Placement.Props.C02', 'category': 'proof',
    'text': 'Lean 4 theorems for every combination satisfying Spec.IsCandidate (hence every element of the enumerator the '
            'real response is compared with in C03): named providers exist, every suffixed group in full on the provider '
            'its mapping names, every unsuffixed class in full on one provider of the unsuffixed mapping, stored amount = '
            'sum of the placements on that (provider, class), per-class totals = requested totals; provider summaries '
            'cover every named provider and equal the table-derived values.  On the real service every returned request '
            'is re-computed from the query, PUT unchanged for a new consumer (204 required) and the summaries are '
            're-derived from the tables, at every microversion boundary from 1.10.  Props/C02Merge: the merge stage of the '
            'code itself (Model/Merge.lean follows _merge_candidates / _consolidate_allocation_requests with Python\'s shared '
            'mutable resource objects; the copy rule is translated from copy_arr_if_needed): consolidation modifies no shared '
            'object and yields per (provider, class) the SUM of the placements, for every store and combination; the rule as '
            'it was before the fix: commit is refuted on a concrete store (3 VCPU for 2 requested).',
    'level_note': 'trusted: Lean kernel; acceptance by the real PUT is observed for every returned request of the runs, the '
                  'Lean acceptance theorem is about the model of PUT /allocations (tied to the code by the C01 histories).',
    'technique': 'Lean 4 proof over the candidate specification and over the model of the merge stage (generated copy rule) + '
                 're-PUT / re-derivation monitors on the real service',
    'design_ref': 'DESIGN.md section 5, C02',
}

FRESH = 'cfffffff-0000-0000-0000-00000000000%d'
BOUNDARIES = [10, 11, 12, 16, 17, 21, 24, 25, 26, 27, 28, 29, 31, 32, 33, 34, 35, 36, 38, 39]

SIG_A = 'c02:placed-differs-from-asked:class-in-several-groups:policy-%s'


def check_request(q, ar, dump):
    """monitor (1): -> list of (signature suffix, detail)"""
    out = []
    rows = cands.canon_alloc_request(ar)[0]
    for rp, rc, n in rows:
        if rp not in dump['rps']:
            out.append(('unknown-provider', '%s not a provider' % rp))
        if not isinstance(n, int) or n < 1:
            out.append(('non-positive-amount', '%s %s %s' % (rp, rc, n)))
    asked = {}
    for g in cands.all_groups(q):
        for rc, n in g['resources']:
            asked[rc] = asked.get(rc, 0) + n
    placed = {}
    for rp, rc, n in rows:
        placed[rc] = placed.get(rc, 0) + n
    if placed != asked:
        out.append(('class-totals', 'placed %s, asked %s' % (placed, asked)))
    if 'mappings' in ar:
        mp_ = ar['mappings']
        resid = {(rp, rc): n for rp, rc, n in rows}
        for g in q['groups']:
            ps = mp_.get(g['suffix'])
            if not isinstance(ps, list) or len(ps) != 1:
                out.append(('suffixed-mapping-not-one-provider', '%s -> %s' % (g['suffix'], ps)))
                continue
            if ps[0] not in dump['rps']:
                out.append(('unknown-provider', '%s in mappings' % ps[0]))
            for rc, n in g['resources']:
                k = (ps[0], rc)
                if resid.get(k, 0) < n:
                    out.append(('suffixed-group-not-in-full', 'group %s: %s:%s on %s, request has %s' % (
                        g['suffix'], rc, n, ps[0], resid.get(k, 0))))
                resid[k] = resid.get(k, 0) - n
        resid = {k: n for k, n in resid.items() if n != 0}
        if q['unsuff']:
            ps = mp_.get('') or []
            used = set()
            for rc, n in q['unsuff']['resources']:
                holders = [p for p in ps if resid.get((p, rc), 0) == n]
                if len([k for k in resid if k[1] == rc]) != 1 or not holders:
                    out.append(('unsuffixed-class-not-in-full-on-one-mapped-provider',
                                '%s:%s, remaining after the suffixed groups: %s, mapping %s' % (
                                    rc, n, {('%s' % (k,)): x for k, x in resid.items() if k[1] == rc}, ps)))
                else:
                    used.add(holders[0])
                    del resid[(holders[0], rc)]
            if set(ps) != used and not any(s.startswith('unsuffixed') for s, _ in out):
                out.append(('unsuffixed-mapping-names-unused-provider', '%s vs %s' % (ps, sorted(used))))
        elif '' in mp_:
            out.append(('mapping-for-absent-group', str(mp_.get(''))))
        if resid and not out:
            out.append(('amounts-not-sum-of-groups', 'left over %s' % {('%s' % (k,)): x for k, x in resid.items()}))
        if set(mp_) != set(g['suffix'] for g in cands.all_groups(q)):
            out.append(('mapping-keys', '%s' % sorted(mp_)))
    return out


def put_body(ar, mv):
    body = {'allocations': ar['allocations']}
    if 'mappings' in ar:
        body['mappings'] = ar['mappings']
    body['project_id'] = 'proj1'
    body['user_id'] = 'user1'
    if mv >= 28:
        body['consumer_generation'] = None
    if mv >= 38:
        body['consumer_type'] = 'INSTANCE'
    return body


def derive_summaries(dump, q, v):
    """what provider_summaries must say for each provider, from the tables"""
    mv = q['mv']
    asked = set(rc for g in cands.all_groups(q) for rc, _ in g['resources'])
    out = {}
    for u, p in dump['rps'].items():
        res = {}
        for (rp, rc), i in v.invs.items():
            if rp != u:
                continue
            if mv >= 27 or rc in asked:
                res[rc] = {'capacity': int((i['total'] - i['reserved']) * i['ratio']), 'used': v.used.get((rp, rc), 0)}
        e = {'resources': res}
        if mv >= 17:
            e['traits'] = sorted(v.traits.get(u, ()))
        if mv >= 29:
            e['parent_provider_uuid'] = p['parent']
            e['root_provider_uuid'] = p['root']
        out[u] = e
    return out


def canon_summary(e):
    e = dict(e)
    if 'traits' in e:
        e['traits'] = sorted(e['traits'])
    return e


def lean_summaries(lr):
    out = {}
    for s in lr['summaries']:
        e = {'resources': {rc: {'capacity': c, 'used': u} for rc, c, u in s['resources']}}
        if 'traits' in s:
            e['traits'] = sorted(s['traits'])
        if 'root' in s:
            e['parent_provider_uuid'] = s.get('parent')
            e['root_provider_uuid'] = s['root']
        out[s['rp']] = e
    return out


def examine(a, m, dump, v, q, patched=False):
    """run one query; -> (info, problems) with problems = list of dict(kind, sig, detail, extra)"""
    url, ver, r = c03.ask_real(a, q)
    info = {'url': url, 'version': ver, 'status': r.status, 'n': 0, 'puts': 0}
    probs = []
    if r.status != 200:
        return info, probs
    body = r.json
    ars = body['allocation_requests']
    info['n'] = len(ars)
    sums = body['provider_summaries']
    want = derive_summaries(dump, q, v)
    mv = q['mv']
    snap = None
    for idx, ar in enumerate(ars):
        for sig, detail in check_request(q, ar, dump):
            probs.append({'kind': 'monitor', 'sig': 'placed:' + sig, 'detail': detail, 'request': ar})
        # every provider that supplies resources has a summary
        for rp, rc, n in cands.canon_alloc_request(ar)[0]:
            if rp not in sums:
                probs.append({'kind': 'monitor', 'sig': 'summary-missing-for-named-provider', 'detail': rp, 'request': ar})
        # (2) claim it
        if snap is None:
            snap = a.snapshot()
        pr = a.call('PUT', '/allocations/' + FRESH % (idx % 10), put_body(ar, mv), version=ver)
        info['puts'] += 1
        if pr.status != 204:
            probs.append({'kind': 'monitor', 'sig': 'put-not-accepted:%s' % pr.status,
                          'detail': 'PUT of the returned request -> %s %s' % (pr.status, str(pr.json)[:200]), 'request': ar})
        a.restore(snap)
    # (3) every summary says what the tables say
    for u, e in sums.items():
        if u not in want:
            probs.append({'kind': 'monitor', 'sig': 'summary-of-unknown-provider', 'detail': u})
        elif canon_summary(e) != want[u]:
            probs.append({'kind': 'monitor', 'sig': 'summary-differs-from-tables',
                          'detail': '%s: response %s, tables %s' % (u, json.dumps(canon_summary(e), sort_keys=True),
                                                                    json.dumps(want[u], sort_keys=True))})
    # (4) the set of summaries equals the specification's (when the request sets agree)
    if not patched:
        lr = c03.ask_lean(m, q)
        with_maps = mv >= 34
        if lr['status'] == 200 and set(c03.real_set(r, with_maps)) == c03.lean_set(lr, with_maps):
            ls = lean_summaries(lr)
            got = {u: canon_summary(e) for u, e in sums.items()}
            if got != ls:
                diff = sorted(set(got) ^ set(ls)) or [u for u in got if got[u] != ls[u]]
                probs.append({'kind': 'correspondence', 'sig': 'summaries-differ-from-specification',
                              'detail': 'providers %s: response %s, specification %s' % (
                                  diff, json.dumps({u: got.get(u) for u in diff}, sort_keys=True),
                                  json.dumps({u: ls.get(u) for u in diff}, sort_keys=True))})
            info['summaries_compared'] = 1
    return info, probs


def case(args):
    seed, nq = args
    rng = random.Random(seed)
    out = {'seed': seed, 'violations': [], 'evals': 0, 'cands': 0, 'puts': 0, 'by_mv': {}, 'nonempty': 0,
           'distinct': [], 'samples': [], 'sumcmp': 0, 'status': {}}
    try:
        a, m = cands.app(), cands.model()
        spec = cands.gen_state(rng)
        cands.build_state(a, spec)
        dump = a.dump()
        stale = cands.derive_roots(dump)
        if stale:
            out['violations'].append({'kind': 'monitor', 'signature': '%s:root-column-differs-from-parent-links' % 'c02',
                                      'detail': 'after a state built by legal requests (creations and moves): %s' % stale[:3],
                                      'replay': {'type': 'state', 'seed': seed, 'state': spec}})
        if not cands.same_state(spec, dump):
            raise RuntimeError('state built through the API differs from its specification')
        cands.load_model(m, a, dump)
        v = cands.View(dump)
        for k in range(nq):
            mv = rng.choice(BOUNDARIES) if rng.random() < 0.6 else 39
            r_ = rng.random()
            if r_ < 0.7:
                q = cands.gen_query_witness(rng, v, mv=mv)
            else:
                q = cands.gen_query(rng, v, mv=mv)
            info, probs = examine(a, m, dump, v, q)
            out['evals'] += 1
            out['cands'] += info['n']
            out['puts'] += info['puts']
            out['sumcmp'] += info.get('summaries_compared', 0)
            out['by_mv'][str(mv)] = out['by_mv'].get(str(mv), 0) + 1
            out['status'][str(info['status'])] = out['status'].get(str(info['status']), 0) + 1
            if info['n']:
                out['nonempty'] += 1
                out['distinct'].append(hashlib.md5(json.dumps(
                    [dump['invs'], dump['allocs'], dump['rp_traits'], dump['rp_aggs'], sorted(dump['rps'].items()),
                     cands.lean_query(q)], sort_keys=True).encode()).hexdigest())
                if not out['samples'] and info['n'] <= 3:
                    out['samples'].append({'url': info['url'], 'version': info['version'], 'requests_claimed': info['n']})
            if probs:
                # defect A: the copy rule repaired -> every monitor passes?
                explained = False
                if c03.pattern_a(q):
                    with c03.PatchA():
                        _, probs2 = examine(a, m, dump, v, q, patched=True)
                    explained = not probs2
                seen = set()
                for p in probs:
                    if explained:
                        sig = SIG_A % (q['policy'] or 'absent')
                    else:
                        sig = 'c02:%s:mv-%s' % (p['sig'], 'ge-1.34' if q['mv'] >= 34 else ('ge-1.29' if q['mv'] >= 29 else (
                            'ge-1.12' if q['mv'] >= 12 else 'lt-1.12')))
                    if sig in seen:
                        continue
                    seen.add(sig)
                    out['violations'].append({
                        'kind': p['kind'], 'signature': sig, 'detail': '%s: %s' % (info['url'], p['detail']),
                        'replay': {'type': 'state+query', 'module': 'harness.props.c02', 'dump': dump, 'query': q,
                                   'method': 'GET', 'url': info['url'], 'version': info['version'],
                                   'expected': 'every returned request places exactly what was asked, is accepted (204) '
                                               'when PUT for a new consumer, summaries equal the tables',
                                   'observed': {'problem': p['sig'], 'detail': p['detail'], 'request': p.get('request')}}})
    except BaseException:      # incl. an escaped RequestHang: a dead pool worker would hang the check
        out['error'] = traceback.format_exc()
    return out


def run(chk):
    if not getattr(chk, 'no_lean', False):
        chk.lean_stage([META['lean_module'], 'Placement.Props.C02Merge', 'Placement.Props.C02Loop'], exe=True)
    n_states, nq = (1500, 4) if chk.tier == 'quick' else (30000, 4)
    procs = min(16, os.cpu_count() or 4)
    ctx = mp.get_context('fork')
    seeds = [chk.seed * 1000003 + i for i in range(n_states)]
    errors = []
    with ppool.Pool(ctx, procs, initializer=cands.init_worker) as pool:
        for res in pool.imap_unordered(case, [(s, nq) for s in seeds], chunksize=4):
            if 'error' in res:
                errors.append(res['error'])
                continue
            chk.cov['evaluations'] += res['evals']
            chk.count('states', 1)
            chk.count('allocation_requests_checked_and_claimed', res['cands'])
            chk.count('puts', res['puts'])
            chk.count('responses_with_candidates', res['nonempty'])
            chk.count('summary_sets_compared_with_specification', res['sumcmp'])
            for h in res['distinct']:
                chk._distinct.add(h)
            for k, n in res['by_mv'].items():
                chk.tally('by_microversion', k, n)
            for k, n in res['status'].items():
                chk.tally('status', k, n)
            for s in res['samples']:
                chk.sample(s)
            for x in res['violations']:
                chk.violation(x['kind'], x['signature'], x['detail'], x['replay'])
    if errors:
        if len(errors) > max(3, n_states // 100):
            raise RuntimeError('worker errors (%d):\n%s' % (len(errors), errors[0]))
        chk.notes.append('%d state(s) skipped after a worker error: %s' % (len(errors), errors[0][-300:]))
    chk.cov['rule'] = (
        'states and queries of the C03 generator (7 in 10 queries built around a witness so that candidates exist), '
        'microversion drawn from every boundary 1.10 .. 1.39; evaluation = one GET whose every allocation request is '
        're-computed from the query, PUT unchanged for a new consumer on a snapshot (204 required), and whose summaries '
        'are re-derived from the tables and compared with the Lean specification; distinct_nontrivial = distinct '
        '(state, query) with at least one allocation request')


def replay(doc):
    rp = doc['replay']
    cands.init_worker()
    a, m = cands.app(), cands.model()
    cands.build_state(a, rp['dump'])
    dump = a.dump()
    cands.load_model(m, a, dump)
    info, probs = examine(a, m, dump, cands.View(dump), rp['query'])
    print('GET %s   (microversion %s) -> %s, %d allocation requests' % (info['url'], info['version'], info['status'], info['n']))
    for p in probs:
        print('  %s: %s' % (p['sig'], p['detail']))
        if p.get('request'):
            print('      request: %s' % json.dumps(p['request']))
    print('REPRODUCED' if probs else 'not reproduced')
    return 1 if probs else 0
