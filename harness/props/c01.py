from harness import hist

META = {
    'property_id': 'C01', 'lean_module': 'Placement.Props.C01', 'category': 'proof',
    'text': 'Lean 4 theorems over the executable model of _check_capacity_exceeded/_set_allocations/reshaper and the '
            'allocation handlers (all states, all requests, no size bound), the model being tied to the code by '
            'differential histories (statuses, error codes, full table dumps after every request) and by a monitor '
            'that re-computes the property from the real tables with the service\'s own float arithmetic.',
    'level_note': 'trusted: Lean kernel; model<->code tie is sampled (correspondence); SQLite float product equals '
                  'Python/Lean IEEE double product.',
    'technique': 'Lean 4 proof (induction over the check loop, invariants over histories) + model/implementation correspondence',
    'design_ref': 'DESIGN.md section 5, C01',
}

PROFILE = {'weights': {'alloc_put': 30, 'alloc_post': 12, 'reshape': 8, 'inv_set': 14, 'inv_update': 8,
                       'rp_update': 2, 'trait_put': 0, 'trait_delete': 0, 'rp_traits_set': 1, 'rp_traits_delete': 0,
                       'rc_rename': 0, 'aggs_set': 1},
           'n_rps': 4,
           'footprint': ['rps', 'invs', 'allocs', 'consumers']}


def run(chk):
    if not getattr(chk, 'no_lean', False):
        chk.lean_stage(META['lean_module'], exe=True)
    n = 400 if chk.tier == 'quick' else 8000
    hist.run_histories(chk, n, 40, PROFILE, ['C01'])
    chk.cov['rule'] = ('random histories of 40 requests over <=4 providers, 5 classes, 4 consumers; amounts aimed at the '
                       'remaining capacity +-1, max_unit+1, non-multiples of step_size; distinct = (operation, status) pairs; '
                       'every request is also executed by the Lean model and statuses/codes/tables compared')
