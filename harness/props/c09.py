from harness import conc, hist

META = {
    'property_id': 'C09', 'lean_module': 'Placement.Props.C09', 'category': 'proof',
    'text': 'Lean 4 theorems: Forest (parents exist, a rank decreases towards parents) and Roots (local root equations) are '
            'invariants of create / update (first-time parenting, re-parenting, un-parenting of subtrees) / delete in the '
            'model for all states, root = top of the parent chain; tied to the code by differential histories; a graph-walk '
            'monitor checks the real table after every request and the documented rejections; beyond sequences: '
            'forest_roots_every_schedule (any pool of requests, any interleaving of their transactions, PUT/DELETE of a provider '
            'modelled as look-up + write transaction) and every interleaving of pairs of tree-changing requests on the real '
            'application compared with Prog.runSched.',
    'level_note': 'trusted: Lean kernel; correspondence sampled.',
    'technique': 'Lean 4 proof (rank-function invariant, induction over requests) + model/implementation correspondence',
    'design_ref': 'DESIGN.md section 5, C09',
}

PROFILE = {'weights': {'rp_create': 30, 'rp_update': 40, 'rp_delete': 14, 'inv_set': 2, 'inv_add': 0, 'inv_update': 0, 'inv_delete': 0,
                       'inv_delete_all': 0, 'trait_put': 0, 'trait_delete': 0, 'rp_traits_set': 0, 'rp_traits_delete': 0,
                       'rc_post': 0, 'rc_put': 0, 'rc_rename': 0, 'rc_delete': 0, 'aggs_set': 0, 'alloc_put': 3, 'alloc_post': 0,
                       'alloc_delete': 1, 'reshape': 0},
           'n_rps': 8, 'footprint': ['rps']}

RACES = {'n_rps': 7, 'setup_ops': 18, 'picker': 'tree', 'model': True,
         'scenarios': ['create-vs-move', 'create-vs-unparent', 'create-vs-delete', 'move-vs-move', 'move-vs-delete'],
         'setup_weights': {'rp_create': 40, 'rp_update': 10, 'rp_delete': 1, 'alloc_put': 4, 'inv_set': 6, 'rc_rename': 0,
                           'rc_delete': 0, 'trait_delete': 0}}


def run(chk):
    if not getattr(chk, 'no_lean', False):
        chk.lean_stage(META['lean_module'], exe=True)
    n = 500 if chk.tier == 'quick' else 10000
    hist.run_histories(chk, n, 50, PROFILE, ['C09'])
    # beyond sequences: two in-flight provider requests (creation under a parent against a move or the deletion of that
    # parent, two moves that would form a loop together), every interleaving at transaction granularity on the real
    # application; the forest property is evaluated on the state each schedule ends in
    conc.run_races(chk, ['C09'], 96 if chk.tier == 'quick' else 2000, 300, RACES)
    chk.cov['rule'] = ('random histories of 50 provider create/update/delete requests over a pool of 8 providers on both sides of '
                       '1.14 and 1.37 (moves between trees, to top level, under own descendants); distinct = (operation, status) pairs; plus every interleaving of pairs of tree-changing requests')
