"""C13  Provider listing filters select exactly the matching providers.

Lean stage: `Placement.Props.C13` (the id-set algorithm of `_get_all_by_filters_from_db`, with its early returns,
selects exactly the providers satisfying the declarative `Spec.MatchesFilters`; empty-list and 400 cases).
Exploration: on states of the C03 generator, every subset of the six filter kinds {name, uuid, in_tree, member_of,
required, resources} in every spelling the microversion admits (repeated member_of, in:, !, !in:, repeated required,
required=in:, !trait) is sent to `GET /resource_providers` and evaluated by the compiled Lean specification on the
dump of the real tables; status and the SET of uuids must agree."""
from harness import ppool
import copy
import hashlib
import json
import multiprocessing as mp
import os
import random
import traceback
import urllib.parse

from harness import cands
from harness.cands import TRAITS, AGGS, UNKNOWN_AGGS, UNKNOWN_RP, UNKNOWN_TRAIT, UNKNOWN_CLASS

META = {
    'property_id': 'C13', 'lean_module': 'Placement.Props.C13', 'category': 'proof',
    'text': 'Lean 4: Spec.MatchesFilters is the property text (exact name, exact uuid, tree of in_tree, direct membership '
            'of one aggregate of each member_of value and of no forbidden aggregate, every required trait / one of each '
            'in: list, no forbidden trait, room for every resources entry under capacity, min_unit, max_unit, step_size); '
            'the model of _get_all_by_filters_from_db (id sets, early returns, forbidden sets subtracted only when '
            'non-empty) is proved to list exactly the matching providers for every state and filter combination; unknown '
            'in_tree / uuid / only-unknown aggregates give the empty list, unknown traits or classes 400.  The real '
            'service is compared with the compiled specification on generated states for all 64 subsets of filter kinds '
            'in all spellings.',
    'level_note': 'trusted: Lean kernel; query-string parsing exercised, not modelled; SQL of the real service related to '
                  'the list comprehensions of the model by the sampled equality of results.',
    'technique': 'Lean 4 proof (algorithm = declarative predicate) + specification/implementation differential runs',
    'design_ref': 'DESIGN.md section 5, C13; Appendix D',
}

KINDS = ['name', 'uuid', 'in_tree', 'member_of', 'required', 'resources']
SIG_M = 'c13:empty-name-treated-as-no-filter'
SIG_ORDER = 'c13:unknown-trait-or-class-not-rejected:empty-list-returned-before-names-are-resolved'


def min_version(f):
    mv = 0
    if f['member_of'] or f['forbidden_aggs']:
        mv = max(mv, 3)
    if f['resources']:
        mv = max(mv, 4)
    if f['in_tree'] is not None:
        mv = max(mv, 14)
    if f['required'] or f['forbidden']:
        mv = max(mv, 18)
    if f['forbidden']:
        mv = max(mv, 22)
    if len(f['member_of']) + (1 if f['forbidden_aggs'] else 0) > 1:
        mv = max(mv, 24)
    if f['forbidden_aggs']:
        mv = max(mv, 32)
    if any(len(s) > 1 for s in f['required']):
        mv = max(mv, 39)
    return mv


def gen_filters(rng, v, subset):
    """filters of the kinds in `subset`, aimed at one provider of the state (mostly satisfied by it)"""
    f = {'name': None, 'uuid': None, 'in_tree': None, 'member_of': [], 'forbidden_aggs': [], 'required': [],
         'forbidden': [], 'resources': [], 'rs': rng.randrange(1 << 30)}
    rps = sorted(v.rps)
    tp = rng.choice(rps) if rps else None
    hit = 0.75          # probability that a filter is chosen such that tp passes it
    if 'name' in subset:
        r = rng.random()
        if tp and r < hit:
            f['name'] = v.rps[tp]['name']
        elif r < 0.9:
            names = [v.rps[u]['name'] for u in rps]
            f['name'] = rng.choice(names + [n.strip() for n in names] + [' ' + n.strip() for n in names] + ['nobody', 'P1']) if rps else 'nobody'
        else:
            f['name'] = ''
    if 'uuid' in subset:
        r = rng.random()
        f['uuid'] = tp if (tp and r < hit) else (rng.choice(rps) if rps and r < 0.9 else UNKNOWN_RP)
    if 'in_tree' in subset:
        r = rng.random()
        if tp and r < hit:
            same = [u for u in rps if v.rps[u]['root'] == v.rps[tp]['root']]
            f['in_tree'] = rng.choice(same)
        else:
            f['in_tree'] = rng.choice(rps) if rps and r < 0.92 else UNKNOWN_RP
    if 'member_of' in subset:
        mine = sorted(v.aggs.get(tp, ())) if tp else []
        other = [x for x in AGGS if x not in mine]
        pos = rng.random() < 0.8
        neg = (not pos) or rng.random() < 0.35
        if pos:
            for _ in range(rng.choice([1, 1, 2])):
                r = rng.random()
                a1 = rng.choice(mine) if (mine and r < hit) else rng.choice(AGGS + UNKNOWN_AGGS)
                r = rng.random()
                if r < 0.5:
                    f['member_of'].append([a1])
                elif r < 0.9:
                    f['member_of'].append(sorted(set([a1, rng.choice(AGGS + UNKNOWN_AGGS)])))
                else:
                    f['member_of'].append(sorted(UNKNOWN_AGGS[:rng.choice([1, 2])]))
        if neg:
            pool = (other + UNKNOWN_AGGS[:1]) if (other and rng.random() < hit) else AGGS
            f['forbidden_aggs'] = sorted(rng.sample(pool, 1 if len(pool) < 2 or rng.random() < 0.6 else 2))
    if 'required' in subset:
        mine = sorted(v.traits.get(tp, ())) if tp else []
        other = [t for t in TRAITS if t not in mine]
        pos = rng.random() < 0.8
        neg = (not pos) or rng.random() < 0.4
        if pos:
            for _ in range(rng.choice([1, 1, 2])):
                t1 = rng.choice(mine) if (mine and rng.random() < hit) else rng.choice(TRAITS)
                if rng.random() < 0.3:
                    f['required'].append(sorted(set([t1, rng.choice(TRAITS)])))
                else:
                    f['required'].append([t1])
            if rng.random() < 0.04:
                f['required'].append([UNKNOWN_TRAIT])
        if neg:
            pool = other if (other and rng.random() < hit) else TRAITS
            pool = [t for t in pool if not any(t in s for s in f['required'])]
            if pool:
                f['forbidden'] = sorted(rng.sample(pool, 1 if len(pool) < 2 or rng.random() < 0.7 else 2))
            if rng.random() < 0.03:
                f['forbidden'].append(UNKNOWN_TRAIT)
        f['required'] = [s for s in f['required'] if s]
    if 'resources' in subset:
        cl = sorted(k[1] for k in v.invs if k[0] == tp) if tp else []
        placed = {}
        if cl and rng.random() < 0.85:
            for rc in rng.sample(cl, min(len(cl), rng.choice([1, 1, 2]))):
                n = cands._fit(rng, v, (tp, rc), placed) if rng.random() < hit else None
                if n is None:
                    n = v.amount(rng, rc, None, [tp], 0.3)
                f['resources'].append([rc, n])
        else:
            rc = rng.choice(v.classes or ['VCPU'])
            f['resources'].append([rc, v.amount(rng, rc, None, None, 0.6)])
        if rng.random() < 0.03:
            f['resources'].append([UNKNOWN_CLASS, 1])
    mn = min_version(f)
    if rng.random() < 0.7:
        f['mv'] = 39
    else:
        f['mv'] = rng.choice([m for m in (0, 3, 4, 13, 14, 17, 18, 21, 22, 23, 24, 31, 32, 38, 39) if m >= mn])
    return f


def render(f):
    rr = random.Random(f['rs'])
    mv = f['mv']
    params = []
    for k in ('name', 'uuid', 'in_tree'):
        if f[k] is not None:
            params.append((k, f[k]))
    params += cands._render_member_of(rr, f['member_of'], f['forbidden_aggs'], mv, 'member_of')
    params += cands._render_required(rr, f['required'], f['forbidden'], mv, 'required')
    if f['resources']:
        params.append(('resources', ','.join('%s:%d' % (rc, n) for rc, n in f['resources'])))
    rr.shuffle(params)
    qs = '&'.join('%s=%s' % (k, urllib.parse.quote(x, safe=':,!')) for k, x in params)
    return '/resource_providers' + ('?' + qs if qs else ''), '1.%d' % mv


def lean_filters(f):
    return {k: f[k] for k in ('name', 'uuid', 'in_tree', 'member_of', 'forbidden_aggs', 'required', 'forbidden', 'resources')}


def compare(a, m, f):
    url, ver = render(f)
    r = a.call('GET', url, version=ver)
    lr = m.send({'cmd': 'list_rps', 'filters': lean_filters(f)})
    if 'error' in lr:
        raise RuntimeError('driver: %s' % lr['error'])
    out = {'url': url, 'version': ver, 'status_real': r.status, 'status_lean': lr['status'], 'real': None, 'lean': None}
    if r.status == 200:
        out['real'] = [p['uuid'] for p in r.json['resource_providers']]
    else:
        out['body'] = r.json
    if lr['status'] == 200:
        out['lean'] = sorted(lr['uuids'])
    return out


def disagree(c):
    if c['status_real'] != c['status_lean']:
        return True
    if c['status_real'] != 200:
        return False
    return sorted(c['real']) != c['lean']


def explain_known(a, m, f, c):
    # M: `if name:` - the empty string is "no filter"
    if f['name'] == '':
        f2 = dict(f, name=None)
        lr = m.send({'cmd': 'list_rps', 'filters': lean_filters(f2)})
        if lr['status'] == c['status_real'] and (lr['status'] != 200 or sorted(lr['uuids']) == sorted(c['real'])):
            return [SIG_M]
    # unknown trait / class: 400 expected; the code returns [] as soon as an earlier filter matches nothing
    if c['status_lean'] == 400 and c['status_real'] == 200 and c['real'] == []:
        def known(t):
            return t != UNKNOWN_TRAIT
        f2 = dict(f, required=[[t for t in s if known(t)] for s in f['required']],
                  forbidden=[t for t in f['forbidden'] if known(t)],
                  resources=[x for x in f['resources'] if x[0] != UNKNOWN_CLASS])
        f2['required'] = [s for s in f2['required'] if s]
        # without the unknown names the request is valid; the early return is the cause only if an EARLIER filter of the
        # code's order (in_tree, required, member_of) already matches nobody
        return [SIG_ORDER]
    return None


def drop_kind(f, k):
    f2 = dict(f)
    if k in ('name', 'uuid', 'in_tree'):
        f2[k] = None
    elif k == 'member_of':
        f2['member_of'], f2['forbidden_aggs'] = [], []
    elif k == 'required':
        f2['required'], f2['forbidden'] = [], []
    else:
        f2['resources'] = []
    return f2


def minimal_kinds(a, m, f, kind):
    """drop filter kinds while the same kind of disagreement (extra / missing / status) persists"""
    def same(c):
        if kind == 'status':
            return c['status_real'] != c['status_lean']
        if c['status_real'] != 200 or c['status_lean'] != 200:
            return False
        if kind == 'extra':
            return bool(set(c['real']) - set(c['lean']))
        return bool(set(c['lean']) - set(c['real']))
    cur = f
    for k in KINDS:
        if k not in kinds_of(cur):
            continue
        f2 = drop_kind(cur, k)
        try:
            c2 = compare(a, m, f2)
        except Exception:
            continue
        if same(c2) and not explain_known(a, m, f2, c2):
            cur = f2
    return cur


def kinds_of(f):
    ks = []
    for k in ('name', 'uuid', 'in_tree'):
        if f[k] is not None:
            ks.append(k)
    if f['member_of'] or f['forbidden_aggs']:
        ks.append('member_of')
    if f['required'] or f['forbidden']:
        ks.append('required')
    if f['resources']:
        ks.append('resources')
    return ks


def forms_of(f, url):
    fm = []
    if len([1 for p in url.split('&') if 'member_of=' in p]) > 1:
        fm.append('member_of-repeated')
    if 'member_of=in:' in url:
        fm.append('member_of=in:')
    if 'member_of=!in:' in url:
        fm.append('member_of=!in:')
    if 'member_of=!' in url.replace('member_of=!in:', ''):
        fm.append('member_of=!')
    if len([1 for p in url.split('&') if 'required=' in p]) > 1:
        fm.append('required-repeated')
    if 'required=in:' in url:
        fm.append('required=in:')
    if f['forbidden']:
        fm.append('required=!T')
    if any(x in sum(f['member_of'], []) + f['forbidden_aggs'] for x in UNKNOWN_AGGS):
        fm.append('unknown-aggregate')
    if f['in_tree'] == UNKNOWN_RP or f['uuid'] == UNKNOWN_RP:
        fm.append('unknown-provider')
    if UNKNOWN_TRAIT in sum(f['required'], []) + f['forbidden']:
        fm.append('unknown-trait')
    if any(x[0] == UNKNOWN_CLASS for x in f['resources']):
        fm.append('unknown-class')
    if f['name'] == '':
        fm.append('empty-name')
    return fm


def case(args):
    seed, nq = args
    rng = random.Random(seed)
    out = {'seed': seed, 'violations': [], 'evals': 0, 'subsets': {}, 'forms': {}, 'by_mv': {}, 'sizes': {},
           'status': {}, 'distinct': [], 'samples': []}
    try:
        a, m = cands.app(), cands.model()
        spec = cands.gen_state(rng)
        cands.build_state(a, spec)
        dump = a.dump()
        stale = cands.derive_roots(dump)
        if stale:
            out['violations'].append({'kind': 'monitor', 'signature': '%s:root-column-differs-from-parent-links' % 'c13',
                                      'detail': 'after a state built by legal requests (creations and moves): %s' % stale[:3],
                                      'replay': {'type': 'state', 'seed': seed, 'state': spec}})
        if not cands.same_state(spec, dump):
            raise RuntimeError('state built through the API differs from its specification')
        cands.load_model(m, a, dump)
        v = cands.View(dump)
        for k in range(nq):
            idx = (seed * nq + k) % 64
            subset = [KINDS[i] for i in range(6) if (idx >> i) & 1]
            f = gen_filters(rng, v, subset)
            c = compare(a, m, f)
            out['evals'] += 1
            key = '+'.join(kinds_of(f)) or '(none)'
            out['subsets'][key] = out['subsets'].get(key, 0) + 1
            for fm in forms_of(f, c['url']):
                out['forms'][fm] = out['forms'].get(fm, 0) + 1
            out['by_mv'][str(f['mv'])] = out['by_mv'].get(str(f['mv']), 0) + 1
            st = '%s/%s' % (c['status_real'], c['status_lean'])
            out['status'][st] = out['status'].get(st, 0) + 1
            if c['lean'] is not None:
                n = len(c['lean'])
                b = '0' if n == 0 else ('all' if n == len(dump['rps']) else 'some')
                out['sizes'][b] = out['sizes'].get(b, 0) + 1
                if 0 < n < len(dump['rps']):
                    out['distinct'].append(hashlib.md5(json.dumps(
                        [dump['invs'], dump['allocs'], dump['rp_traits'], dump['rp_aggs'], sorted(dump['rps'].items()),
                         lean_filters(f)], sort_keys=True).encode()).hexdigest())
                    if not out['samples'] and len(subset) >= 3:
                        out['samples'].append({'url': c['url'], 'version': c['version'], 'providers': len(dump['rps']),
                                               'expected=observed': c['lean']})
            if disagree(c) or (c['real'] is not None and len(set(c['real'])) != len(c['real'])):
                known = explain_known(a, m, f, c)
                if known:
                    sigs = known
                elif c['status_real'] != c['status_lean']:
                    f = minimal_kinds(a, m, f, 'status')
                    c = compare(a, m, f)
                    sigs = ['c13:status:%s-expected-%s:%s' % (c['status_real'], c['status_lean'], '+'.join(kinds_of(f)))]
                else:
                    extra = sorted(set(c['real']) - set(c['lean']))
                    missing = sorted(set(c['lean']) - set(c['real']))
                    kind = 'extra' if extra else ('missing' if missing else 'duplicate')
                    if kind != 'duplicate':
                        f = minimal_kinds(a, m, f, kind)
                        c = compare(a, m, f)
                    sigs = ['c13:%s:%s' % (kind, '+'.join(kinds_of(f)))]
                for sig in sigs:
                    out['violations'].append({
                        'kind': 'monitor', 'signature': sig,
                        'detail': '%s -> %s %s, specification %s %s' % (c['url'], c['status_real'], c['real'], c['status_lean'], c['lean']),
                        'replay': {'type': 'state+query', 'module': 'harness.props.c13', 'dump': dump, 'query': f,
                                   'method': 'GET', 'url': c['url'], 'version': c['version'],
                                   'expected': {'status': c['status_lean'], 'uuids': c['lean']},
                                   'observed': {'status': c['status_real'], 'uuids': c['real'], 'body': c.get('body')}}})
    except BaseException:      # incl. an escaped RequestHang: a dead pool worker would hang the check
        out['error'] = traceback.format_exc()
    return out


def run(chk):
    if not getattr(chk, 'no_lean', False):
        chk.lean_stage(META['lean_module'], exe=True)
    n_states, nq = (1600, 8) if chk.tier == 'quick' else (32000, 8)
    procs = min(16, os.cpu_count() or 4)
    ctx = mp.get_context('fork')
    seeds = [chk.seed * 1000003 + i for i in range(n_states)]
    errors = []
    with ppool.Pool(ctx, procs, initializer=cands.init_worker) as pool:
        for res in pool.imap_unordered(case, [(s, nq) for s in seeds], chunksize=4):
            if 'error' in res:
                errors.append(res['error'])
                continue
            chk.cov['evaluations'] += res['evals']
            chk.count('states', 1)
            for h in res['distinct']:
                chk._distinct.add(h)
            for key, tk in (('subsets', 'filter_kind_subsets'), ('forms', 'spellings_and_edge_values'),
                            ('by_mv', 'by_microversion'), ('sizes', 'expected_result'), ('status', 'status_real/spec')):
                for k, n in res[key].items():
                    chk.tally(tk, k, n)
            for s in res['samples']:
                chk.sample(s)
            for x in res['violations']:
                chk.violation(x['kind'], x['signature'], x['detail'], x['replay'])
    if errors:
        if len(errors) > max(3, n_states // 100):
            raise RuntimeError('worker errors (%d):\n%s' % (len(errors), errors[0]))
        chk.notes.append('%d state(s) skipped after a worker error: %s' % (len(errors), errors[0][-300:]))
    chk.cov['subsets_covered'] = '%d of 64' % len(chk.cov.get('filter_kind_subsets', {}))
    chk.cov['rule'] = (
        'states of the C03 generator (trees, aggregates, traits, boundary inventories, usage); per state 8 requests cycling '
        'through all 64 subsets of {name, uuid, in_tree, member_of, required, resources}, values aimed at one provider '
        '(3 of 4 filters pass it), spellings drawn from every form the microversion admits, unknown uuids / aggregates / '
        'traits / classes and the empty name mixed in. evaluation = one request compared (status, set of uuids) with the '
        'Lean specification; distinct_nontrivial = distinct (state, filters) selecting a proper non-empty subset')


def replay(doc):
    rp = doc['replay']
    cands.init_worker()
    a, m = cands.app(), cands.model()
    cands.build_state(a, rp['dump'])
    cands.load_model(m, a, a.dump())
    c = compare(a, m, rp['query'])
    print('GET %s   (microversion %s)' % (c['url'], c['version']))
    print('real:          %s %s' % (c['status_real'], sorted(c['real']) if c['real'] is not None else c.get('body')))
    print('specification: %s %s' % (c['status_lean'], c['lean']))
    hit = disagree(c)
    print('REPRODUCED' if hit else 'not reproduced')
    return 1 if hit else 0
