from harness import ppool
import json
import multiprocessing as mp
import os
import random
import re
import traceback
import urllib.parse

import os_resource_classes as orc
import os_traits

from harness import gen, ops
from harness.model import Model, diff_dumps

META = {
    'property_id': 'C19', 'lean_module': 'Placement.Props.C19', 'category': 'proof',
    'text': 'Lean 4 theorems: start-up synchronisation makes every library trait and class present (standard classes at id = index) '
            'from any table content, is idempotent and keeps custom rows; no request of the handler model deletes or renames a '
            'standard name; custom class ids are >= 10000 and fresh; creating an existing name is idempotent or a conflict, never a '
            'duplicate (all states, all histories interleaved with sync); names accepted by the generated patterns; tied to the code '
            'by differential histories of trait / class requests interleaved with forced re-synchronisation from partially emptied tables.',
    'level_note': 'trusted: Lean kernel; correspondence sampled; name well-formedness rests on the generated regex model (Gen/Schemas) and jsonschema.',
    'technique': 'Lean 4 proof (sync lemmas, invariants over histories) + model/implementation correspondence',
    'design_ref': 'DESIGN.md section 5, C19',
}

NAME_RE = re.compile(r'\ACUSTOM_[A-Z0-9_]+\Z')
STD_RCS = list(orc.STANDARDS)
STD_TRAITS = sorted(os_traits.get_traits())
_APP = _MODEL = None

BAD_NAMES = ['CUSTOM_', 'CUSTOM_a', 'CUSTOM_A-B', 'custom_x', 'VCPU2', 'CUSTOM_A B', 'CUSTOM_' + 'A' * 249, 'CUSTOM_' + 'A' * 248,
             'CUSTOM_Ä', 'CUSTOM_X\n', 'CUSTOM_X\r', 'CUSTOM__', 'CUSTOM_0', ' CUSTOM_X', 'CUSTOM_X ', 'CUSTOM_X\x00',
             # names that are not plain text for whoever pastes them into JSON, SQL LIKE or a URL
             'CUSTOM_A","name":"CUSTOM_B', 'CUSTOM_A"', 'CUSTOM_A\\', 'CUSTOM_A\\u0042', 'CUSTOM_%', 'CUSTOM_A/B', 'CUSTOM_A?x=1']


def _init():
    global _APP, _MODEL
    from harness.app import App
    _APP = App()
    _MODEL = Model()


def std_tables(app):
    rcs = sorted([n, i] for i, n in app.sql('select id, name from resource_classes') if i < 10000)
    traits = sorted(n for (n,) in app.sql('select name from traits') if not n.startswith('CUSTOM_'))
    return rcs, traits


def monitor(app, rec_op, status, before_custom):
    out = []
    rcs = app.sql('select id, name from resource_classes')
    traits = [n for (n,) in app.sql('select name from traits')]
    names = [n for _, n in rcs]
    if len(set(names)) != len(names) or len(set(traits)) != len(traits):
        out.append(('c19:duplicate-name', str([n for n in names if names.count(n) > 1] + [t for t in traits if traits.count(t) > 1])))
    ids = [i for i, _ in rcs]
    if len(set(ids)) != len(ids):
        out.append(('c19:duplicate-class-id', str(ids)))
    for i, n in rcs:
        if n in STD_RCS:
            if i != STD_RCS.index(n):
                out.append(('c19:standard-class-wrong-id', '%s has id %s' % (n, i)))
        else:
            if i < 10000:
                out.append(('c19:custom-class-id-below-10000', '%s has id %s' % (n, i)))
            if not NAME_RE.match(n) or len(n) > 255:
                out.append(('c19:malformed-custom-class-name:%s' % ('trailing-newline' if n.endswith('\n') and NAME_RE.match(n[:-1]) else 'other'), repr(n)))
    for t in traits:
        if t not in STD_TRAITS and (not NAME_RE.match(t) or len(t) > 255):
            out.append(('c19:malformed-custom-trait-name:%s' % ('trailing-newline' if t.endswith('\n') and NAME_RE.match(t[:-1]) else 'other'), repr(t)))
    return out


def case(args):
    seed, nops = args
    rng = random.Random(seed)
    out = {'seed': seed, 'violations': [], 'ops': 0, 'by': {}, 'syncs': 0}
    try:
        from placement import deploy
        from placement.objects import trait, resource_class
        _APP.reset()
        _MODEL.reset(STD_RCS, STD_TRAITS, _APP.conf.placement.incomplete_consumer_project_id,
                     _APP.conf.placement.incomplete_consumer_user_id)
        U = gen.RPS[0]
        hist = []

        def both(op):
            r = ops.apply_real(_APP, op)
            mr = _MODEL.send(op)
            return r, mr
        both({'op': 'rp_create', 'mv': 39, 'uuid': U, 'name': 'r', 'parent': None})
        names_rc = gen.CUSTOM_RCS + ['CUSTOM_RC3', 'VCPU', 'MEMORY_MB', 'FPGA']
        names_t = gen.CUSTOM_TRAITS + ['CUSTOM_T3', 'HW_CPU_X86_AVX', 'STORAGE_DISK_SSD']
        for i in range(nops):
            x = rng.random()
            vio = []
            if x < 0.12:
                # forced re-synchronisation from partially emptied tables (rows in use are kept)
                used_rcs = {n for (n,) in _APP.sql('select rc.name from inventories i join resource_classes rc on rc.id = i.resource_class_id')}
                used_t = {n for (n,) in _APP.sql('select t.name from resource_provider_traits rt join traits t on t.id = rt.trait_id')}
                k = rng.choice([0, 1, 3, len(STD_RCS)])
                drop_rc = [n for n in rng.sample(STD_RCS, k) if n not in used_rcs]
                kt = rng.choice([0, 2, 40, len(STD_TRAITS)])
                drop_t = [n for n in rng.sample(STD_TRAITS, kt) if n not in used_t]
                for n in drop_rc:
                    _APP.sql('delete from resource_classes where name = ?', (n,))
                for n in drop_t:
                    _APP.sql('delete from traits where name = ?', (n,))
                _MODEL.send({'cmd': 'drop_std', 'rcs': drop_rc, 'traits': drop_t})
                reps = rng.choice([1, 1, 2])
                failed_first = None
                for _ in range(reps):
                    trait._TRAITS_SYNCED = False
                    resource_class._RESOURCE_CLASSES_SYNCED = False
                    if rng.random() < 0.3:
                        # a start-up that FAILS (the database connection is lost at some statement of the
                        # synchronisation), followed by the next start-up in the same interpreter - as a WSGI container
                        # does when the application factory raised.  The second one must complete the job.
                        from harness import faults
                        failed_first = rng.randrange(0, 12)
                        try:
                            with faults.FailAt(_APP.engine, failed_first) as fa:
                                deploy.update_database(_APP.conf)
                        except Exception:
                            pass
                        if not fa.fired:
                            failed_first = None
                    deploy.update_database(_APP.conf)
                    _MODEL.send({'cmd': 'sync'})
                out['syncs'] += reps
                op = {'op': 'sync', 'dropped_rcs': len(drop_rc), 'dropped_traits': len(drop_t), 'repeated': reps,
                      'first_start_failed_at_statement': failed_first}
                hist.append(op)
                rcs, traits = std_tables(_APP)
                if [r[0] for r in rcs] != sorted(STD_RCS) or any(i != STD_RCS.index(n) for n, i in rcs):
                    vio.append(('c19:sync-incomplete-classes', 'after sync: %d standard classes' % len(rcs)))
                if traits != STD_TRAITS:
                    vio.append(('c19:sync-incomplete-traits', 'after sync: %d standard traits, library has %d' % (len(traits), len(STD_TRAITS))))
                m = _MODEL.send({'cmd': 'std_tables'})
                if sorted(map(list, m['rcs'])) != rcs or sorted(m['traits']) != traits:
                    vio.append(('corr:sync-tables', 'model and real standard tables differ after sync'))
                status = 0
            elif x < 0.24:
                # malformed / non-custom names straight at the HTTP layer
                name = rng.choice(BAD_NAMES)
                kind = rng.choice(['rc_post', 'rc_put', 'trait_put', 'rc_rename'])
                q = urllib.parse.quote(name, safe='')
                mv = {'rc_post': rng.choice([2, 39]), 'rc_put': rng.choice([7, 39]), 'rc_rename': 6,
                      'trait_put': rng.choice([6, 39])}[kind]
                old = rng.choice(gen.CUSTOM_RCS)
                if kind == 'rc_post':
                    r = _APP.call('POST', '/resource_classes', body={'name': name}, version='1.%d' % mv)
                elif kind == 'rc_put':
                    r = _APP.call('PUT', '/resource_classes/%s' % q, version='1.%d' % mv)
                elif kind == 'rc_rename':
                    r = _APP.call('PUT', '/resource_classes/%s' % old, body={'name': name}, version='1.6')
                else:
                    r = _APP.call('PUT', '/traits/%s' % q, version='1.%d' % mv)
                op = {'op': 'raw_' + kind, 'name': name, 'mv': mv}
                if kind == 'rc_rename':
                    op['old'] = old
                hist.append(op)
                status = r.status
                if r.status >= 500:
                    vio.append(('c19:5xx:%s:%s' % (kind, 'trailing-newline' if name.endswith('\n') else 'other'), '%s %r -> %s' % (kind, name, r.status)))
                if NAME_RE.match(name) and len(name) <= 255:
                    # a legal name: the model has the operation, statuses and tables must agree
                    mop = {'op': kind, 'mv': mv, 'name': name}
                    if kind == 'rc_rename':
                        mop = {'op': 'rc_rename', 'mv': 6, 'old': old, 'new': name}
                    mr = _MODEL.send(mop)
                    if 'error' in mr:
                        vio.append(('corr:driver-error', mr['error']))
                    elif r.status != mr['status']:
                        vio.append(('corr:status:raw_%s' % kind, 'real %s model %s' % (r.status, mr['status'])))
                elif r.status < 400 and kind in ('rc_post', 'rc_rename'):
                    # an illegal name in a request BODY was accepted (the monitor below also reports the malformed row)
                    vio.append(('c19:illegal-name-accepted:%s:%s' % (kind, 'trailing-newline' if name.endswith('\n') else 'other'),
                                '%s %r -> %s' % (kind, name, r.status)))
                elif r.status < 400:
                    # an illegal name in the URL was answered with success: the router (third-party `routes`, not
                    # modelled) may have cut it (its `$` matches before a trailing newline).  What counts for the
                    # property is the row that now exists: the monitor below checks its form; the model is told the
                    # name that was actually created so that the histories stay aligned.
                    now_rc = {n for (n,) in _APP.sql('select name from resource_classes where id >= 10000')}
                    now_t = {n for (n,) in _APP.sql("select name from traits where name like 'CUSTOM%'")}
                    m = _MODEL.dump()
                    for n in sorted(now_rc - {x[0] if isinstance(x, list) else x for x in m.get('custom_rcs', [])}):
                        if NAME_RE.match(n):
                            _MODEL.send({'op': 'rc_put', 'mv': 39, 'name': n})
                    for n in sorted(now_t - set(m.get('custom_traits', []))):
                        if NAME_RE.match(n):
                            _MODEL.send({'op': 'trait_put', 'mv': 39, 'name': n})
            else:
                kind = rng.choice(['rc_post', 'rc_put', 'rc_put', 'rc_rename', 'rc_delete', 'rc_delete', 'trait_put', 'trait_put',
                                   'trait_delete', 'trait_delete', 'inv_add', 'inv_delete', 'rp_traits_set'])
                g = _APP.dump()['rps'].get(U, {}).get('gen', 0)
                if kind == 'rc_post':
                    op = {'op': 'rc_post', 'mv': rng.choice([2, 39]), 'name': rng.choice(names_rc[:3])}
                elif kind == 'rc_put':
                    op = {'op': 'rc_put', 'mv': rng.choice([7, 39]), 'name': rng.choice(names_rc[:3])}
                elif kind == 'rc_rename':
                    op = {'op': 'rc_rename', 'mv': 6, 'old': rng.choice(names_rc), 'new': rng.choice(names_rc[:3])}
                elif kind == 'rc_delete':
                    op = {'op': 'rc_delete', 'mv': rng.choice([2, 39]), 'name': rng.choice(names_rc)}
                elif kind == 'trait_put':
                    op = {'op': 'trait_put', 'mv': rng.choice([6, 39]), 'name': rng.choice(names_t[:3])}
                elif kind == 'trait_delete':
                    op = {'op': 'trait_delete', 'mv': rng.choice([6, 39]), 'name': rng.choice(names_t)}
                elif kind == 'inv_add':
                    op = {'op': 'inv_add', 'mv': 39, 'uuid': U, 'inv': ops.inv(rng.choice(names_rc), 4)}
                elif kind == 'inv_delete':
                    op = {'op': 'inv_delete', 'mv': 39, 'uuid': U, 'rc': rng.choice(names_rc)}
                else:
                    op = {'op': 'rp_traits_set', 'mv': 39, 'uuid': U, 'gen': g, 'traits': rng.sample(names_t, rng.choice([0, 1, 2]))}
                hist.append(op)
                before = std_tables(_APP)
                r, mr = both(op)
                status = r.status
                if 'error' in mr:
                    vio.append(('corr:driver-error', mr['error']))
                elif r.status != mr['status']:
                    vio.append(('corr:status:%s' % op['op'], 'real %s model %s' % (r.status, mr['status'])))
                else:
                    d = diff_dumps(_APP.dump(), _MODEL.dump(), ['custom_rcs', 'custom_traits', 'n_std_rcs', 'n_traits', 'invs', 'rp_traits'])
                    if d:
                        vio.append(('corr:state:%s' % op['op'], json.dumps(d)[:400]))
                after = std_tables(_APP)
                if before != after:
                    vio.append(('c19:standard-rows-changed-by:%s' % op['op'], 'status %s' % r.status))
                std_target = (op.get('name') in STD_RCS + STD_TRAITS) or (op.get('old') in STD_RCS)
                if std_target and op['op'] in ('rc_delete', 'rc_rename', 'trait_delete') and r.status != 400:
                    vio.append(('c19:standard-name-not-refused-400:%s' % op['op'], 'status %s' % r.status))
                if op['op'] in ('rc_put', 'trait_put') and r.status not in (201, 204):
                    vio.append(('c19:idempotent-create-status:%s' % op['op'], 'status %s' % r.status))
                if op['op'] == 'rc_post' and r.status not in (201, 409):
                    vio.append(('c19:create-status:rc_post', 'status %s' % r.status))
            out['ops'] += 1
            k = '%s %s' % (hist[-1]['op'], status)
            out['by'][k] = out['by'].get(k, 0) + 1
            for s, t in monitor(_APP, hist[-1], status, None):
                vio.append((s, t))
            if vio:
                for s, t in vio:
                    kindv = 'correspondence' if s.startswith('corr:') else 'monitor'
                    out['violations'].append({'kind': kindv, 'signature': s, 'detail': t,
                                              'replay': {'type': 'c19-history', 'module': 'harness.props.c19', 'ops': hist, 'seed': seed,
                                                         'nops': nops, 'observed': t}})
                break
    except BaseException:      # incl. an escaped RequestHang: a dead pool worker would hang the check
        out['error'] = traceback.format_exc()
    finally:
        try:
            from placement.objects import trait, resource_class
            trait._TRAITS_SYNCED = True
            resource_class._RESOURCE_CLASSES_SYNCED = True
        except Exception:
            pass
    return out

RACES = {'n_rps': 3, 'setup_ops': 8, 'picker': 'tree', 'model': False, 'scenarios': ['name-create-race', 'name-delete-race'],
         'setup_weights': {'rp_create': 10, 'rc_put': 10, 'trait_put': 10, 'inv_set': 5, 'rc_rename': 0, 'rc_delete': 2,
                           'trait_delete': 2}}


def run(chk):
    if not getattr(chk, 'no_lean', False):
        chk.lean_stage([META['lean_module'], 'Placement.Props.C19Names'], exe=True)
    n = 160 if chk.tier == 'quick' else 2400
    ctx = mp.get_context('fork')
    errors = []
    with ppool.Pool(ctx, min(16, os.cpu_count() or 4), initializer=_init) as pool:
        for res in pool.imap_unordered(case, [(chk.seed * 32452843 + i, 40) for i in range(n)]):
            if 'error' in res:
                errors.append(res['error'])
                continue
            chk.cov['evaluations'] += res['ops']
            chk.count('synchronisations', res['syncs'])
            for k, v in res['by'].items():
                chk.tally('by_op_status', k, v)
                chk._distinct.add(k)
            for x in res['violations']:
                chk.violation(x['kind'], x['signature'], x.get('detail', ''), x['replay'])
    if errors:
        raise RuntimeError('worker errors:\n' + errors[0])
    # beyond sequences: two in-flight requests creating / deleting the same custom name, every interleaving at
    # transaction granularity on the real application: never a duplicate name or id, statuses 201/204/409 (404)
    from harness import conc
    conc.run_races(chk, ['C19'], 48 if chk.tier == 'quick' else 1200, 200, RACES)
    chk.cov['rule'] = ('histories of 40 steps: trait / class create, rename (1.2-1.6), idempotent PUT (1.7+), delete, inventories and provider '
                       'traits putting names in use, malformed and non-custom names sent raw, and forced start-up synchronisation (once or '
                       'twice) after deleting random subsets (none, few, all) of the standard rows by SQL; distinct = (operation, status) pairs')


def replay(doc):
    """re-run the generated history of the recorded seed (the generator is deterministic in the seed) on the
    real application and the model; exit 1 when the recorded signature shows up again"""
    rp = doc['replay']
    _init()
    try:
        res = case((rp['seed'], rp.get('nops', 40)))
    finally:
        _MODEL.close() if hasattr(_MODEL, 'close') else None
    if 'error' in res:
        print(res['error'])
        return 2
    for v in res['violations']:
        print('  %s  %s' % (v['signature'], v['detail']))
    hit = [v for v in res['violations'] if v['signature'] == doc.get('signature')]
    print('REPRODUCED' if hit else 'not reproduced')
    return 1 if hit else 0
