from harness import conc, hist

META = {
    'property_id': 'C08', 'lean_module': 'Placement.Props.C08', 'category': 'proof',
    'text': 'Lean 4 theorems: referential integrity RI is an invariant of every request of the handler model (induction over '
            'histories, all states), deletions of entities in use are refused with the state unchanged; the model is tied '
            'to the code by differential histories; a join monitor evaluates RI on the real tables after every request; beyond sequences, every interleaving of deletion-versus-use request pairs on the real application (final-state joins, serial-order oracle, Prog.runSched for the provider requests).',
    'level_note': 'trusted: Lean kernel; correspondence sampled.',
    'technique': 'Lean 4 proof (invariant by induction over requests) + model/implementation correspondence',
    'design_ref': 'DESIGN.md section 5, C08',
}

PROFILE = {'weights': {'rp_delete': 10, 'inv_delete': 8, 'inv_delete_all': 4, 'rc_delete': 6, 'trait_delete': 5, 'rc_put': 4,
                       'trait_put': 4, 'rp_traits_set': 8, 'aggs_set': 6, 'alloc_delete': 8, 'reshape': 8, 'inv_set': 14,
                       'rc_rename': 2},
           'n_rps': 6}

CONSUMER_RACES = {'n_rps': 2, 'setup_ops': 16, 'existing_consumer_bias': 0.4, 'empty_bias': 0.2, 'model': False,
                  'setup_weights': {'rp_delete': 0, 'alloc_put': 30, 'alloc_delete': 1, 'rc_rename': 0, 'rc_delete': 0, 'trait_delete': 0,
                                    'rp_traits_set': 0, 'aggs_set': 0, 'rp_update': 0},
                  'race_kinds': {'alloc_put': 8, 'alloc_post': 3, 'reshape': 1, 'alloc_delete': 3},
                  'p_three': 0.0}

RACES = {'n_rps': 6, 'setup_ops': 22, 'picker': 'tree', 'model': True,
         'scenarios': ['create-vs-delete', 'move-vs-delete', 'delete-vs-alloc', 'delete-vs-inv', 'delete-vs-traits',
                       'invdelete-vs-alloc', 'rcdelete-vs-inv', 'traitdelete-vs-use'],
         'setup_weights': {'rp_create': 30, 'rp_update': 6, 'rp_delete': 1, 'alloc_put': 12, 'inv_set': 14, 'rc_rename': 0,
                           'rc_delete': 0, 'trait_delete': 0}}


def run(chk):
    if not getattr(chk, 'no_lean', False):
        chk.lean_stage(META['lean_module'], exe=True)
    n = 400 if chk.tier == 'quick' else 8000
    hist.run_histories(chk, n, 50, PROFILE, ['C08'])
    # beyond sequences: the same records under two in-flight requests (a deletion racing with a request that starts
    # using the entity), every interleaving at transaction granularity on the real application, judged on the state
    # the schedule ends in and by the serial-order oracle
    conc.run_races(chk, ['C08'], 96 if chk.tier == 'quick' else 2000, 300, RACES)
    # allocations must not outlive their consumer record either: writes racing for one consumer (new or existing), a DELETE
    # against a write
    # (judged on the final tables only - 'NOSERIAL': whether the STATUSES of such races are those of a serial order is the
    # business of C06 / C07 / C12, e.g. a DELETE that read the allocations before a racing write emptied the consumer
    # answers 204 where any serial order gives 404)
    conc.run_races(chk, ['C08', 'NOSERIAL'], 64 if chk.tier == 'quick' else 1500, 120, CONSUMER_RACES)
    chk.cov['rule'] = ('random histories of 50 requests mixing creation, replacement and deletion of providers, inventories, '
                       'classes, traits, aggregates and allocations; joins evaluated on the real tables after every request; '
                       'distinct = (operation, status) pairs; plus every interleaving of deletion-versus-use request pairs')
