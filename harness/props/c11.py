"""C11: reads report exactly the state produced by the successful writes.

The broad correspondence: generated histories over every write operation of harness/gen.py
(microversions mixed, boundaries included) are run through the real WSGI application and the Lean
model (write side: status, error code from 1.23, full table dump, exactly as harness/hist.py does);
after EVERY write request k randomly chosen GET requests (all read routes, existing and
non-existing targets, a random microversion at which the route exists, sometimes one below its
introduction) are answered by both sides and compared: status, error code, canonicalised body.

Independently of the model, a monitor re-computes from the real tables (`App.dump()`) what each
read has to report (usages = sum of allocations, per-consumer and per-provider views of allocations,
usage totals per project / user / consumer type with consumer_count, every generation field,
name / parent / root of providers, inventories, traits, aggregates) and compares it with the real
response; a second monitor fetches both allocation listings of all providers and consumers and
compares the (provider, consumer, class, amount) quadruples directly.
"""
from harness import ppool
import json
import multiprocessing as mp
import os
import random
import time
import traceback
from urllib.parse import urlencode

from harness import gen, hist, ops
from harness.model import diff_dumps, _flt

META = {
    'property_id': 'C11', 'lean_module': 'Placement.Props.C11Reads', 'category': 'proof',
    'text': 'Lean 4 model of every GET route (Model/Reads.lean: bodies as functions of microversion and state) with '
            'theorems that the views it reports agree for every state (usages = sum over consumers, provider view = '
            'consumer view of allocations, totals = sums of consumer views, generations and root/parent = stored rows); '
            'write side = Model/Handlers.lean (step). Tied to the code by differential histories: after every write of a '
            'generated history the full tables and k random reads (all routes, microversions 1.0-1.39, existing and '
            'missing targets) are compared between the real application and the compiled model; a monitor independent '
            'of the model recomputes every read from the real tables.',
    'level_note': 'trusted: Lean kernel; model<->code tie is sampled (correspondence on generated histories); links, '
                  'timestamps and cache headers are not compared; filters of GET /resource_providers belong to C13, '
                  'allocation candidates to C02/C03.',
    'technique': 'Lean 4 proof (view agreement over all states) + model/implementation correspondence on every route',
    'design_ref': 'DESIGN.md section 5, C11',
}

# route -> microversion of introduction
ROUTES = {
    'root': 0, 'rp': 0, 'rps': 0, 'inventories': 0, 'inventory': 0, 'rp_usages': 0, 'rp_allocations': 0,
    'allocations': 0, 'rp_aggregates': 1, 'rcs': 2, 'rc': 2, 'rp_traits': 6, 'traits': 6, 'trait': 6, 'usages': 9,
}
ROUTE_WEIGHTS = {
    'root': 1, 'rp': 4, 'rps': 4, 'inventories': 4, 'inventory': 4, 'rp_usages': 5, 'rp_allocations': 6,
    'allocations': 7, 'rp_aggregates': 3, 'rcs': 2, 'rc': 3, 'rp_traits': 3, 'traits': 4, 'trait': 3, 'usages': 8,
}
# versions at which some read changes shape
READ_BOUNDARIES = [0, 1, 2, 5, 6, 8, 9, 11, 12, 13, 14, 15, 18, 19, 20, 27, 28, 29, 37, 38, 39]
UNKNOWN_RP = '99999999-0000-0000-0000-000000000000'
UNKNOWN_CONSUMER = 'c9999999-0000-0000-0000-000000000000'
INCOMPLETE = '00000000-0000-0000-0000-000000000000'
RC_POOL = gen.STD_RCS + gen.CUSTOM_RCS + ['CUSTOM_RC3', 'CUSTOM_NOPE', 'PCI_DEVICE', 'NOPE']
TRAIT_POOL = gen.STD_TRAITS + gen.CUSTOM_TRAITS + ['CUSTOM_NOPE', 'NOPE', 'HW_CPU_X86_AVX2']
# prefixes that are not plain prefixes when read as SQL LIKE patterns ('%', '_' matching another character).
# objects/trait.py passes the prefix to LIKE unescaped (reported defect); these probes are generated only once
# KNOWN_FINDINGS.json lists the signature below for C11 (status finding: reported as KNOWN-FINDING; status fixed:
# any recurrence is a violation) - otherwise the unchanged tree could not pass.
LIKE_SIG = 'read:traits:startswith-is-sql-like-pattern'
LIKE_PREFIXES = ['HW%AVX2', 'HW_CPU_X86_A_X2', 'CUSTOM%1', '%']
PREFIXES = ['CUSTOM_', 'CUSTOM_T', 'CUSTOM_T1', 'HW_CPU_X86_AV', 'HW_CPU_X86_AVX', 'STORAGE_DISK', 'MISC', 'ZZZ', '', 'C', 'CUSTOM_T11']


# --------------------------------------------------------------------------- generation of reads
def pick_read_mv(rng, route):
    lo = ROUTES[route]
    r = rng.random()
    if lo > 0 and r < 0.03:
        return rng.randrange(0, lo)            # below the introduction: 404 of the version handler
    if r < 0.6:
        return rng.randrange(lo, 40)
    return rng.choice([m for m in READ_BOUNDARIES if m >= lo])


def gen_read(rng, dump, n_rps=8, like_probes=False):
    routes = list(ROUTE_WEIGHTS)
    route = rng.choices(routes, weights=[ROUTE_WEIGHTS[r] for r in routes])[0]
    rd = {'route': route, 'mv': pick_read_mv(rng, route)}
    ex = list(dump['rps'])

    def some_rp():
        if ex and rng.random() < 0.85:
            return rng.choice(ex)
        return rng.choice(gen.RPS[:n_rps] + [UNKNOWN_RP])

    if route in ('rp', 'inventories', 'rp_usages', 'rp_allocations', 'rp_aggregates', 'rp_traits'):
        rd['uuid'] = some_rp()
    elif route == 'inventory':
        keys = [(i[0], i[1]) for i in dump['invs']]
        if keys and rng.random() < 0.7:
            rd['uuid'], rd['rc'] = rng.choice(keys)
        else:
            rd['uuid'], rd['rc'] = some_rp(), rng.choice(RC_POOL)
    elif route == 'allocations':
        have = sorted(set(a[1] for a in dump['allocs']))
        if have and rng.random() < 0.8:
            rd['consumer'] = rng.choice(have)
        else:
            rd['consumer'] = rng.choice(gen.CONSUMERS + [UNKNOWN_CONSUMER])
    elif route == 'trait':
        rd['name'] = rng.choice(TRAIT_POOL)
    elif route == 'rc':
        rd['name'] = rng.choice(RC_POOL)
    elif route == 'traits':
        r = rng.random()
        if r < 0.25:
            pass
        elif r < 0.5:
            rd['name'] = 'in:' + ','.join(rng.sample(TRAIT_POOL, rng.choice([1, 2, 3])))
        elif r < 0.75:
            rd['name'] = 'startswith:' + rng.choice(PREFIXES)
            if like_probes and rng.random() < 0.15:
                rd['name'] = 'startswith:' + rng.choice(LIKE_PREFIXES)
        elif r < 0.8:
            rd['name'] = rng.choice(['CUSTOM_T1', 'between:A,B', 'in:', ''])
        if rng.random() < 0.5:
            rd['associated'] = rng.choice(['true', 'false', 'true', 'false', 'True', 'FALSE', 'maybe', ''])
        if rng.random() < 0.03:
            rd['extra'] = True
    elif route == 'usages':
        projects = sorted(set(c['project'] for c in dump['consumers'].values()))
        users = sorted(set(c['user'] for c in dump['consumers'].values()))
        r = rng.random()
        if r < 0.04:
            pass                                     # project_id missing: 400
        elif r < 0.06:
            rd['project_id'] = ''
        elif projects and r < 0.8:
            rd['project_id'] = rng.choice(projects)
        else:
            rd['project_id'] = rng.choice(gen.PROJECTS + [INCOMPLETE, 'nope'])
        r = rng.random()
        if r < 0.45:
            pass
        elif users and r < 0.85:
            rd['user_id'] = rng.choice(users)
        elif r < 0.97:
            rd['user_id'] = rng.choice(gen.USERS + [INCOMPLETE, 'nope'])
        else:
            rd['user_id'] = ''
        if rd['mv'] >= 38 or rng.random() < 0.05:
            r = rng.random()
            if r < 0.4:
                pass
            elif r < 0.55:
                rd['consumer_type'] = 'all'
            elif r < 0.7:
                rd['consumer_type'] = 'unknown'
            elif r < 0.95:
                rd['consumer_type'] = rng.choice(gen.CTYPES + ['NOPE'])
            else:
                rd['consumer_type'] = rng.choice(['bad-type', 'instance', ''])
        if rng.random() < 0.02:
            rd['extra'] = True
    return rd


def read_path(rd):
    route = rd['route']
    u = rd.get('uuid')
    if route == 'root':
        return '/'
    if route == 'rp':
        return '/resource_providers/%s' % u
    if route == 'rps':
        return '/resource_providers'
    if route == 'inventories':
        return '/resource_providers/%s/inventories' % u
    if route == 'inventory':
        return '/resource_providers/%s/inventories/%s' % (u, rd['rc'])
    if route == 'rp_usages':
        return '/resource_providers/%s/usages' % u
    if route == 'rp_allocations':
        return '/resource_providers/%s/allocations' % u
    if route == 'rp_aggregates':
        return '/resource_providers/%s/aggregates' % u
    if route == 'rp_traits':
        return '/resource_providers/%s/traits' % u
    if route == 'allocations':
        return '/allocations/%s' % rd['consumer']
    if route == 'trait':
        return '/traits/%s' % rd['name']
    if route == 'rc':
        return '/resource_classes/%s' % rd['name']
    if route == 'rcs':
        return '/resource_classes'
    if route in ('traits', 'usages'):
        keys = ('name', 'associated') if route == 'traits' else ('project_id', 'user_id', 'consumer_type')
        q = [(k, rd[k]) for k in keys if k in rd]
        if rd.get('extra'):
            q.append(('bogus', '1'))
        return '/%s%s' % (route, ('?' + urlencode(q)) if q else '')
    raise ValueError(route)


def real_read(app, rd):
    return app.call('GET', read_path(rd), version='1.%d' % rd['mv'])


def model_read(model, rd):
    m = dict(rd)
    m['cmd'] = 'read'
    return model.send(m)


# --------------------------------------------------------------------------- canonical bodies
def _strip(x):
    if isinstance(x, dict):
        if set(x) == {'bits'}:
            return _flt(x)
        return {k: _strip(v) for k, v in x.items() if k != 'links'}
    if isinstance(x, list):
        return [_strip(v) for v in x]
    return x


def canon(route, body):
    """comparable form of a 2xx body of either side: links dropped, float bit patterns decoded,
    lists the API does not order sorted"""
    b = _strip(body)
    if not isinstance(b, dict):
        return b
    if route == 'rps' and isinstance(b.get('resource_providers'), list):
        b['resource_providers'] = sorted(b['resource_providers'], key=lambda r: str(r.get('uuid')))
    if route == 'rcs' and isinstance(b.get('resource_classes'), list):
        b['resource_classes'] = sorted(b['resource_classes'], key=lambda r: str(r.get('name')))
    for k in ('traits', 'aggregates'):
        if isinstance(b.get(k), list):
            b[k] = sorted(b[k], key=str)
    return b


def first_diff(a, b, path='', names=('model', 'real')):
    """path of the first differing observable of two canonical bodies (a: names[0], b: names[1])"""
    if isinstance(a, dict) and isinstance(b, dict):
        for k in sorted(set(a) | set(b), key=str):
            if k not in a:
                return '%s/%s (only %s)' % (path, k, names[1])
            if k not in b:
                return '%s/%s (only %s)' % (path, k, names[0])
            d = first_diff(a[k], b[k], '%s/%s' % (path, k), names)
            if d:
                return d
        return None
    if isinstance(a, list) and isinstance(b, list):
        if len(a) != len(b):
            return '%s (length %d vs %d)' % (path, len(a), len(b))
        for i, (x, y) in enumerate(zip(a, b)):
            d = first_diff(x, y, '%s[%d]' % (path, i), names)
            if d:
                return d
        return None
    if isinstance(a, bool) != isinstance(b, bool):
        return path
    return None if a == b else path


def generic(path):
    """a path with uuids / names / list positions replaced, for stable signatures"""
    out = []
    for seg in path.split('/'):
        if not seg:
            continue
        base, _, suffix = seg.partition(' ')
        name = base.split('[')[0]
        out.append((name if name in FIELD_NAMES else '*') + ('[]' if '[' in base else '') + ((' ' + suffix) if suffix else ''))
    return '/'.join(out)


FIELD_NAMES = {'uuid', 'name', 'generation', 'parent_provider_uuid', 'root_provider_uuid', 'resource_providers',
               'resource_provider_generation', 'inventories', 'total', 'reserved', 'min_unit', 'max_unit', 'step_size',
               'allocation_ratio', 'usages', 'allocations', 'resources', 'consumer_generation', 'project_id', 'user_id',
               'consumer_type', 'consumer_count', 'aggregates', 'traits', 'resource_classes', 'versions', 'id',
               'max_version', 'min_version', 'status', 'all', 'unknown'}


# --------------------------------------------------------------------------- monitor: reads vs the real tables
def oracle(rd, d):
    """What the read has to report according to the real tables `d` (App.dump()), or None where the
    monitor has no opinion (error statuses for malformed queries are the correspondence's business).
    -> (status, body or None)"""
    route, mv = rd['route'], rd['mv']
    if mv < ROUTES[route]:
        return None
    rps = d['rps']
    u = rd.get('uuid')
    if route in ('rp', 'inventories', 'inventory', 'rp_usages', 'rp_allocations', 'rp_aggregates', 'rp_traits') and u not in rps:
        return 404, None
    cons = d['consumers']

    def rp_body(uu):
        r = rps[uu]
        b = {'uuid': uu, 'name': r['name'], 'generation': r['gen']}
        if mv >= 14:
            b['parent_provider_uuid'] = r['parent']
            b['root_provider_uuid'] = r['root']
        return b

    def inv_body(i):
        return {'total': i[2], 'reserved': i[3], 'min_unit': i[4], 'max_unit': i[5], 'step_size': i[6],
                'allocation_ratio': i[7]}

    if route == 'rp':
        return 200, rp_body(u)
    if route == 'rps':
        return 200, {'resource_providers': [rp_body(x) for x in sorted(rps)]}
    if route == 'inventories':
        return 200, {'resource_provider_generation': rps[u]['gen'],
                     'inventories': {i[1]: inv_body(i) for i in d['invs'] if i[0] == u}}
    if route == 'inventory':
        for i in d['invs']:
            if i[0] == u and i[1] == rd['rc']:
                b = inv_body(i)
                # every inventory write moves the provider generation, so it is documented as always present
                b['resource_provider_generation'] = rps[u]['gen']
                return 200, b
        return 404, None
    if route == 'rp_usages':
        us = {i[1]: 0 for i in d['invs'] if i[0] == u}
        for (rp, c, rc, used) in d['allocs']:
            if rp == u:
                us[rc] = us.get(rc, 0) + used
        return 200, {'resource_provider_generation': rps[u]['gen'], 'usages': us}
    if route == 'rp_allocations':
        al = {}
        for (rp, c, rc, used) in d['allocs']:
            if rp == u:
                e = al.setdefault(c, {'resources': {}})
                e['resources'][rc] = e['resources'].get(rc, 0) + used
                if mv >= 28:
                    e['consumer_generation'] = cons[c]['gen'] if c in cons else None
        return 200, {'allocations': al, 'resource_provider_generation': rps[u]['gen']}
    if route == 'allocations':
        c = rd['consumer']
        al = {}
        for (rp, cc, rc, used) in d['allocs']:
            if cc == c:
                e = al.setdefault(rp, {'generation': rps[rp]['gen'] if rp in rps else None, 'resources': {}})
                e['resources'][rc] = e['resources'].get(rc, 0) + used
        b = {'allocations': al}
        if al and mv >= 12 and c in cons:
            b['project_id'] = cons[c]['project']
            b['user_id'] = cons[c]['user']
            if mv >= 28:
                b['consumer_generation'] = cons[c]['gen']
            if mv >= 38:
                b['consumer_type'] = cons[c]['ctype'] or 'unknown'
        return 200, b
    if route == 'rp_aggregates':
        b = {'aggregates': sorted(a for (rp, a) in d['rp_aggs'] if rp == u)}
        if mv >= 19:
            b['resource_provider_generation'] = rps[u]['gen']
        return 200, b
    if route == 'rp_traits':
        return 200, {'traits': sorted(t for (rp, t) in d['rp_traits'] if rp == u),
                     'resource_provider_generation': rps[u]['gen']}
    if route == 'usages':
        if rd.get('extra') or not rd.get('project_id') or rd.get('user_id') == '':
            return None
        ct = rd.get('consumer_type')
        if ct is not None and (mv < 38 or ct not in ('all', 'unknown') + tuple(gen.CTYPES) + ('NOPE',)):
            return None
        rows = []
        for (rp, c, rc, used) in d['allocs']:
            co = cons.get(c)
            if co is None or co['project'] != rd['project_id']:
                continue
            if 'user_id' in rd and co['user'] != rd['user_id']:
                continue
            rows.append((c, co['ctype'] or 'unknown', rc, used))
        if mv < 38:
            us = {}
            for (c, t, rc, used) in rows:
                us[rc] = us.get(rc, 0) + used
            return 200, {'usages': us}
        if ct == 'all':
            rows = [(c, 'all', rc, used) for (c, t, rc, used) in rows]
        elif ct is not None:
            rows = [r for r in rows if r[1] == ct]
        us = {}
        seen = {}
        for (c, t, rc, used) in rows:
            g = us.setdefault(t, {})
            g[rc] = g.get(rc, 0) + used
            seen.setdefault(t, set()).add(c)
        for t in us:
            us[t]['consumer_count'] = len(seen[t])
        return 200, {'usages': us}
    if route in ('trait', 'traits'):
        all_traits = _std_traits() + list(d['custom_traits'])
        if route == 'trait':
            return (204 if rd['name'] in all_traits else 404), None
        if rd.get('extra') or ('name' in rd and ':' not in rd['name']):
            return None
        if 'associated' in rd and rd['associated'].lower() not in ('true', 'false'):
            return None
        ts = all_traits
        if 'name' in rd:
            o, val = rd['name'].split(':', 1)
            if o == 'in':
                ts = [t for t in ts if t in val.split(',')]
            elif o == 'startswith':
                ts = [t for t in ts if t.startswith(val)]      # documented meaning: "begins with a specific prefix"
        if 'associated' in rd:
            used = set(t for (rp, t) in d['rp_traits'])
            want = rd['associated'].lower() == 'true'
            ts = [t for t in ts if (t in used) == want]
        return 200, {'traits': sorted(ts)}
    if route in ('rc', 'rcs'):
        names = _std_rcs() + [n for n, _ in d['custom_rcs']]
        if route == 'rc':
            return (200, {'name': rd['name']}) if rd['name'] in names else (404, None)
        return 200, {'resource_classes': [{'name': n} for n in sorted(names)]}
    if route == 'root':
        from placement import microversion
        return 200, {'versions': [{'id': 'v%s' % microversion.min_version_string(), 'status': 'CURRENT',
                                   'min_version': microversion.min_version_string(),
                                   'max_version': microversion.max_version_string()}]}
    return None


_CACHE = {}


def _std_traits():
    if 'traits' not in _CACHE:
        import os_traits
        _CACHE['traits'] = sorted(os_traits.get_traits())
    return _CACHE['traits']


def _std_rcs():
    if 'rcs' not in _CACHE:
        import os_resource_classes as orc
        _CACHE['rcs'] = list(orc.STANDARDS)
    return _CACHE['rcs']


def is_like_probe(rd):
    return rd['route'] == 'traits' and rd.get('name', '').startswith('startswith:') and \
        rd['name'][len('startswith:'):] in LIKE_PREFIXES


def monitor_read(rd, resp, d):
    """-> list of (signature, detail): the real response contradicts the real tables"""
    exp = oracle(rd, d)
    if exp is None:
        return []
    st, body = exp
    route = rd['route']
    if resp.status != st:
        return [('read:%s:status' % route, 'GET %s at 1.%d answered %s, the tables prescribe %s' % (
            read_path(rd), rd['mv'], resp.status, st))]
    if body is None:
        return []
    got = canon(route, resp.json)
    want = canon(route, body)
    if route == 'inventory' and isinstance(got, dict) and 'resource_provider_generation' not in got \
            and d['rps'][rd['uuid']]['gen'] == 0:
        want.pop('resource_provider_generation', None)     # unreachable: an inventory implies generation >= 1
    diff = first_diff(want, got, names=('tables', 'api'))
    if diff and route == 'traits' and is_like_probe(rd):
        return [(LIKE_SIG, 'GET %s at 1.%d returns %s; the traits whose name begins with that prefix are %s' % (
            read_path(rd), rd['mv'], json.dumps(got)[:300], json.dumps(want)[:300]))]
    if diff:
        return [('read:%s:%s' % (route, generic(diff)),
                 'GET %s at 1.%d: %s differs; tables say %s, API says %s' % (
                     read_path(rd), rd['mv'], diff, json.dumps(want)[:400], json.dumps(got)[:400]))]
    return []


def monitor_views(app, d, mv):
    """both allocation listings of every provider and consumer, compared directly (no tables):
    the quadruples (provider, consumer, class, amount) must coincide; and every provider's usages
    must be the sums over the consumers' listings"""
    out = []
    v = '1.%d' % mv
    by_rp, by_c = set(), set()
    for u in d['rps']:
        r = app.call('GET', '/resource_providers/%s/allocations' % u, version=v)
        if r.status != 200:
            out.append(('views:rp-allocations-status', 'GET allocations of existing provider %s: %s' % (u, r.status)))
            continue
        for c, e in r.json['allocations'].items():
            for rc, n in e['resources'].items():
                by_rp.add((u, c, rc, n))
    consumers = sorted(set(a[1] for a in d['allocs']) | set(d['consumers']))
    for c in consumers:
        r = app.call('GET', '/allocations/%s' % c, version=v)
        if r.status != 200:
            out.append(('views:allocations-status', 'GET /allocations/%s: %s' % (c, r.status)))
            continue
        allocs = r.json['allocations']
        if isinstance(allocs, list):     # 1.0 - 1.11 list format does not exist for GET; defensive
            continue
        for u, e in allocs.items():
            for rc, n in e['resources'].items():
                by_c.add((u, c, rc, n))
    if by_rp != by_c:
        only_rp, only_c = sorted(by_rp - by_c), sorted(by_c - by_rp)
        out.append(('views:provider-vs-consumer', 'per-provider and per-consumer listings disagree at 1.%d: only per provider %s, '
                    'only per consumer %s' % (mv, only_rp[:4], only_c[:4])))
    sums = {}
    for (u, c, rc, n) in by_c:
        sums[(u, rc)] = sums.get((u, rc), 0) + n
    for u in d['rps']:
        r = app.call('GET', '/resource_providers/%s/usages' % u, version=v)
        if r.status != 200:
            out.append(('views:rp-usages-status', 'GET usages of existing provider %s: %s' % (u, r.status)))
            continue
        for rc, n in r.json['usages'].items():
            if n != sums.get((u, rc), 0):
                out.append(('views:usage-vs-consumer-sum', 'usage of %s on %s is %s, consumers\' listings sum to %s' % (
                    rc, u, n, sums.get((u, rc), 0))))
        for (uu, rc), n in sums.items():
            if uu == u and rc not in r.json['usages']:
                out.append(('views:usage-missing-class', 'usages of %s lack %s although consumers hold %s' % (u, rc, n)))
    return out, len(d['rps']) * 2 + len(consumers)


# --------------------------------------------------------------------------- one read on both sides
def compare_read(app, model, rd, d):
    """-> (real status, list of violations dicts(kind, signature, detail))"""
    vio = []
    r = real_read(app, rd)
    route = rd['route']
    for sig, detail in monitor_read(rd, r, d):
        vio.append({'kind': 'monitor', 'signature': sig, 'detail': detail})
    if r.status >= 500:
        vio.append({'kind': 'monitor', 'signature': 'read:%s:5xx' % route, 'detail': str(r.json)[:300]})
    if model is not None:
        m = model_read(model, rd)
        if 'error' in m:
            vio.append({'kind': 'correspondence', 'signature': 'read-driver-error:%s' % route, 'detail': m['error']})
        elif m.get('duplicate_keys'):
            vio.append({'kind': 'correspondence', 'signature': 'read-model-duplicate-keys:%s' % route,
                        'detail': 'model body has duplicate keys %s' % m['duplicate_keys']})
        elif m['status'] != r.status or (rd['mv'] >= 23 and r.status >= 400 and ops.error_code(r) != m['code']):
            vio.append({'kind': 'correspondence', 'signature': 'read-status:%s' % route,
                        'detail': 'GET %s at 1.%d: real %s %s, model %s %s' % (
                            read_path(rd), rd['mv'], r.status, ops.error_code(r), m['status'], m['code'])})
        elif 200 <= r.status < 300 and not (is_like_probe(rd) and vio):
            a, b = canon(route, m['body']), canon(route, r.json)
            diff = first_diff(a, b)
            if diff:
                vio.append({'kind': 'correspondence', 'signature': 'read-body:%s:%s' % (route, generic(diff)),
                            'detail': 'GET %s at 1.%d: %s differs; model %s, real %s' % (
                                read_path(rd), rd['mv'], diff, json.dumps(a)[:400], json.dumps(b)[:400])})
    return r.status, vio


def run_fixed(oplist, reads, views_mv=None, use_model=True):
    """replay: the writes on a fresh database (both sides), then the reads. -> violations"""
    app, model = hist.app(), (hist._MODEL if use_model else None)
    hist.reset_both()
    vio = []
    for i, op in enumerate(oplist):
        r = ops.apply_real(app, op)
        if model is not None:
            mr = model.send(op)
            if 'error' in mr:
                vio.append({'kind': 'correspondence', 'signature': 'driver-error', 'detail': mr['error'], 'index': i})
            elif r.status != mr['status'] or (op.get('mv', 39) >= 23 and ops.error_code(r) != mr['code']):
                vio.append({'kind': 'correspondence', 'signature': 'status:%s' % op['op'], 'index': i,
                            'detail': 'real %s %s, model %s %s' % (r.status, ops.error_code(r), mr['status'], mr['code'])})
    d = app.dump()
    if model is not None and oplist:
        df = diff_dumps(d, model.dump())
        if df:
            vio.append({'kind': 'correspondence', 'signature': 'state:%s:%s' % (oplist[-1]['op'], '+'.join(x['table'] for x in df)),
                        'detail': json.dumps(df)[:600], 'index': len(oplist) - 1})
    for rd in reads:
        _, v = compare_read(app, model, rd, d)
        vio.extend(v)
    if views_mv is not None:
        v, _ = monitor_views(app, d, views_mv)
        vio.extend({'kind': 'monitor', 'signature': s, 'detail': t} for s, t in v)
    return vio


def shrink(oplist, reads, views_mv, sig, use_model, budget_s=6.0):
    t0 = time.time()
    cur = list(oplist)

    def fails(ol):
        try:
            return any(v['signature'] == sig for v in run_fixed(ol, reads, views_mv, use_model))
        except Exception:
            return False
    if not fails(cur):
        return cur
    i = len(cur) - 1
    while i >= 0 and time.time() - t0 < budget_s:
        cand = cur[:i] + cur[i + 1:]
        if fails(cand):
            cur = cand
        i -= 1
    return cur


def make_replay(hist_ops, reads, views_mv, x, seed, use_model):
    small = shrink(hist_ops, reads, views_mv, x['signature'], use_model and x['kind'] == 'correspondence')
    return {'module': 'harness.props.c11', 'type': 'history+reads', 'seed': seed,
            'ops': small, 'http': [dict(zip(('method', 'path', 'body', 'version'), ops.to_http(o))) for o in small],
            'reads': [dict(rd, method='GET', path=read_path(rd), version='1.%d' % rd['mv']) for rd in reads],
            'views_mv': views_mv,
            'expected': 'the read reports what the tables hold / what the model computes after these writes',
            'observed': x['detail']}


# --------------------------------------------------------------------------- one generated history
def case(args):
    seed, nops, k, profile = args
    rng = random.Random(seed)
    app, model = hist.app(), hist._MODEL
    n_rps = profile.get('n_rps', 8)
    g = gen.Gen(rng, weights=profile.get('weights'), n_rps=n_rps, mv_mode='mixed')
    stats = {'ops': 0, 'reads': 0, 'view_requests': 0, 'by_op_status': {}, 'by_mv': {}, 'by_route_status': {},
             'by_route_mv': {}, 'samples': []}
    out = {'seed': seed, 'violations': [], 'stats': stats}

    def bump(key, sub):
        stats[key][sub] = stats[key].get(sub, 0) + 1

    try:
        hist.reset_both()
        before = app.dump()
        hops = []
        for i in range(nops):
            op = g.op(gen.View(before))
            hops.append(op)
            r = ops.apply_real(app, op)
            after = app.dump()
            stats['ops'] += 1
            bump('by_op_status', '%s %s' % (op['op'], r.status))
            bump('by_mv', str(op.get('mv', 39)))
            vio = []
            mr = model.send(op)
            if 'error' in mr:
                vio.append({'kind': 'correspondence', 'signature': 'driver-error', 'detail': mr['error'], 'index': i})
            else:
                if r.status != mr['status'] or (op.get('mv', 39) >= 23 and ops.error_code(r) != mr['code']):
                    vio.append({'kind': 'correspondence', 'signature': 'status:%s' % op['op'], 'index': i,
                                'detail': 'real %s %s, model %s %s' % (r.status, ops.error_code(r), mr['status'], mr['code'])})
                df = diff_dumps(after, model.dump())
                if df:
                    vio.append({'kind': 'correspondence', 'signature': 'state:%s:%s' % (op['op'], '+'.join(x['table'] for x in df)),
                                'index': i, 'detail': json.dumps(df)[:600]})
            if r.status >= 500:
                vio.append({'kind': 'monitor', 'signature': '5xx:%s' % op['op'], 'index': i, 'detail': str(r.json)[:300]})
            # model-independent: what a successful inventory write STORED is what the request said, every field the body
            # left out at its documented default (the op holds all seven values; harness/ops.py omits defaults now and then)
            if 200 <= r.status < 300 and op['op'] in ('inv_set', 'inv_add', 'inv_update'):
                want = {x['rc']: x for x in (op['invs'] if op['op'] == 'inv_set' else [op['inv']])}
                rows = {row[1]: row for row in after['invs'] if row[0] == op['uuid']}
                for rc_, x in want.items():
                    row = rows.get(rc_)
                    exp = [x['total'], x['reserved'], x['min_unit'], x['max_unit'], x['step_size'], float(x['ratio'])]
                    if row is None or [row[2], row[3], row[4], row[5], row[6], float(row[7])] != exp:
                        vio.append({'kind': 'monitor', 'signature': 'c11:stored-inventory-differs-from-request:%s' % op['op'], 'index': i,
                                    'detail': '%s %s: stored %s, requested %s' % (op['uuid'], rc_, list(row[2:]) if row else None, exp)})
                if op['op'] == 'inv_set' and set(rows) != set(want):
                    vio.append({'kind': 'monitor', 'signature': 'c11:stored-inventory-differs-from-request:inv_set:classes', 'index': i,
                                'detail': '%s: stored classes %s, requested %s' % (op['uuid'], sorted(rows), sorted(want))})
            if vio:
                for x in vio:
                    x['replay'] = make_replay(hops, [], None, x, seed, True)
                    out['violations'].append(x)
                break
            # ---- reads after this prefix (violations are only recorded here: shrinking re-runs histories
            # on this worker's database, so it happens after the last request of the step)
            reads = [gen_read(rng, after, n_rps, profile.get('like_probes', False)) for _ in range(k)]
            found = []
            for rd in reads:
                st, v = compare_read(app, model, rd, after)
                stats['reads'] += 1
                bump('by_route_status', 'GET %s %s' % (rd['route'], st))
                bump('by_mv', str(rd['mv']))
                bump('by_route_mv', '%s@%d' % (rd['route'], rd['mv']))
                if len(stats['samples']) < 2 and rng.random() < 0.02:
                    stats['samples'].append({'after_writes': len(hops), 'last_write': ops.to_http(op)[:2],
                                             'read': 'GET %s' % read_path(rd), 'version': '1.%d' % rd['mv'], 'status': st})
                for x in v:
                    found.append((x, [rd], None, True))
            if rng.random() < profile.get('views_p', 0.25):
                views_mv = rng.choice([0, 11, 12, 27, 28, 37, 38, 39, rng.randrange(40)])
                v, n = monitor_views(app, after, views_mv)
                stats['view_requests'] += n
                stats['by_mv'][str(views_mv)] = stats['by_mv'].get(str(views_mv), 0) + n
                for s, t in v:
                    found.append(({'kind': 'monitor', 'signature': s, 'detail': t}, [], views_mv, False))
            # the LIKE-pattern probes need no history (standard traits suffice): recorded without shrinking,
            # and - nothing was re-run on this database - the history goes on
            for (x, rds, vmv, um) in [f for f in found if f[0]['signature'] == LIKE_SIG]:
                if not any(y['signature'] == LIKE_SIG for y in out['violations']):
                    x['index'] = i
                    x['replay'] = {'module': 'harness.props.c11', 'type': 'history+reads', 'seed': seed, 'ops': [], 'http': [],
                                   'reads': [dict(rd, method='GET', path=read_path(rd), version='1.%d' % rd['mv']) for rd in rds],
                                   'views_mv': None, 'expected': 'only traits whose name begins with the prefix',
                                   'observed': x['detail']}
                    out['violations'].append(x)
            found = [f for f in found if f[0]['signature'] != LIKE_SIG]
            stop = bool(found)
            done = set()
            for (x, rds, vmv, um) in found:
                if x['signature'] in done:
                    continue
                done.add(x['signature'])
                x['index'] = i
                x['replay'] = make_replay(hops, rds, vmv, x, seed, um)
                out['violations'].append(x)
            if stop:
                break
            before = after
    except BaseException:      # incl. an escaped RequestHang: a dead pool worker would hang the check
        out['error'] = traceback.format_exc()
    return out


PROFILE = {'n_rps': 8, 'views_p': 0.25}


def run(chk):
    if not getattr(chk, 'no_lean', False):
        chk.lean_stage([META['lean_module'], 'Placement.Props.C11'], exe=True)
    quick = chk.tier == 'quick'
    n_cases = 300 if quick else 2000
    nops = 40
    k = 3 if quick else 6
    procs = min(16, os.cpu_count() or 4)
    ctx = mp.get_context('fork')
    seeds = [chk.seed * 1000003 + i for i in range(n_cases)]
    errors = []
    reads = writes = views = 0
    from harness.common import load_findings
    profile = dict(PROFILE)
    profile['like_probes'] = any(f.get('property') == 'C11' and f.get('signature') == LIKE_SIG
                                 for f in load_findings().get('findings', []))
    chk.cov['like_pattern_probes_enabled'] = profile['like_probes']
    seen_sig = {}
    with ppool.Pool(ctx, procs, initializer=hist._init, initargs=(True,)) as pool:
        for res in pool.imap_unordered(case, [(s, nops, k, profile) for s in seeds], chunksize=1):
            if 'error' in res:
                errors.append(res['error'])
                continue
            st = res['stats']
            writes += st['ops']
            reads += st['reads']
            views += st['view_requests']
            for key in ('by_op_status', 'by_route_status', 'by_route_mv'):
                for kk, vv in st[key].items():
                    chk.tally(key, kk, vv)
                    chk._distinct.add('%s:%s' % (key, kk))
            for kk, vv in st['by_mv'].items():
                chk.tally('by_microversion', kk, vv)
            for s in st['samples']:
                chk.sample(s, cap=8)
            for x in res['violations']:
                n = seen_sig.get(x['signature'], 0)
                seen_sig[x['signature']] = n + 1
                chk.violation(x['kind'], x['signature'], x.get('detail', ''), x['replay'])
    if errors:
        raise RuntimeError('worker errors:\n' + errors[0])
    chk.cov['evaluations'] = writes + reads + views
    chk.cov['write_requests'] = writes
    chk.cov['read_requests_compared'] = reads
    chk.cov['view_monitor_requests'] = views
    chk.cov['histories'] = n_cases
    by_route = {}
    for kk, vv in chk.cov.get('by_route_status', {}).items():
        r = kk.split(' ')[1]
        by_route[r] = by_route.get(r, 0) + vv
    chk.cov['by_route'] = by_route
    chk.cov['min_hits_per_route'] = min([by_route.get(r, 0) for r in ROUTES])
    bm = chk.cov.get('by_microversion', {})
    chk.cov['min_hits_per_microversion'] = min(bm.get(str(m), 0) for m in range(40))
    chk.cov['traces_validated_against_impl'] = n_cases
    chk.cov['exhaustive'] = False
    chk.cov['rule'] = (
        'histories of %d write requests from harness/gen.py (all 21 write operations, microversions mixed incl. boundaries, '
        'valid and invalid arguments, stale generations); after every write: status / error code (>= 1.23) / full table dump '
        'compared with the Lean model, then %d random GET requests over the 15 read routes (existing and missing targets, '
        'microversion uniform over [introduction, 1.39] or a boundary, 3%% below the introduction) answered by both sides and '
        'compared (status, code, canonical body), each also checked by a model-independent monitor against the real tables; '
        'with probability %.2f both allocation listings and the usages of every provider and consumer are fetched and compared '
        'with each other. distinct = (operation, status) pairs + (route, status) pairs + (route, microversion) pairs seen'
        % (nops, k, PROFILE['views_p']))
    if quick and (chk.cov['min_hits_per_route'] < 100 or chk.cov['min_hits_per_microversion'] < 300):
        chk.notes.append('coverage target missed: min route hits %s, min microversion hits %s' % (
            chk.cov['min_hits_per_route'], chk.cov['min_hits_per_microversion']))


# --------------------------------------------------------------------------- ./check replay <file>
def replay(doc):
    rp = doc['replay']
    use_model = doc.get('kind') == 'correspondence'
    hist._init(use_model)
    vio = run_fixed(rp['ops'], [{k: v for k, v in rd.items() if k not in ('method', 'path', 'version')} for rd in rp.get('reads', [])],
                    rp.get('views_mv'), use_model)
    for v in vio:
        print('  %s  %s' % (v['signature'], v['detail']))
    hit = [v for v in vio if v['signature'] == doc.get('signature')]
    print('REPRODUCED' if hit else 'not reproduced')
    return 1 if hit else 0
