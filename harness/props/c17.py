from harness import ppool
import json
import multiprocessing as mp
import os
import random
import traceback

import os_resource_classes as orc
import os_traits

from harness import corpus, faults, ops
from harness.app import core
from harness.model import Model, diff_dumps, load_dump

META = {
    'property_id': 'C17', 'lean_module': 'Placement.Props.C17', 'category': 'proof',
    'text': 'Lean 4 theorems over a statement-level model of the retry decorators (wrap_db_retry) around write transactions: when '
            'the retried function IS the outermost transaction (aggregate creation race, start-up synchronisation) a retryable fault '
            'at any statement yields the fault-free result exactly once; for _set_allocations, whose retry runs INSIDE the handler\'s '
            'outer transaction, exactly-once is proved false by concrete witnesses (generations advanced twice without rollback; '
            'consumer attribute update lost after a server-side rollback) and proved under the exclusions recorded as known findings '
            '(_partial); tied to the code by injecting one fault at EVERY SQL statement of every request of a write corpus on the real '
            'application and comparing the outcome with the fault-free post-state / the pre-state.',
    'level_note': 'trusted: Lean kernel; fault emulation (DBDeadlock with / without server-side rollback, DBDuplicateEntry, DBError raised from '
                  'a before_cursor_execute listener); corpus finite, single-fault positions enumerated exhaustively; theorem _partial on the '
                  'patterns in KNOWN_FINDINGS.json.',
    'technique': 'Lean 4 proof (retry contract over statement lists, witnesses by decide) + exhaustive single-fault injection on the real code',
    'design_ref': 'DESIGN.md section 5, C17',
}

KINDS = ('deadlock', 'deadlock_rb', 'dberror', 'duplicate')
_APP = _INJ = _MODEL = None


def _init():
    global _APP, _INJ, _MODEL
    from harness.sched import SchedApp
    import atexit
    _APP = SchedApp()
    atexit.register(_APP.close)
    # pool workers leave through os._exit: only multiprocessing's own finalizers run there
    from multiprocessing import util as _mpu
    _mpu.Finalize(None, _APP.close, exitpriority=10)
    _INJ = faults.Injector(_APP)
    _MODEL = Model()


def model_statement_index(events, k):
    """map the index k of a real SQL statement of the main write transaction of PUT /allocations to the
    statement index of Model/Fault.lean `setAllocStmts` (deletes per consumer, check, inserts, provider
    increments, consumer increments, clean-up); None = outside `_set_allocations`"""
    # the main transaction = the last transaction that deletes allocations
    starts = [i for i, e in enumerate(events) if e[0] == 'stmt' and e[1] == 'BEGIN']
    main = None
    for b in starts:
        j = b + 1
        seg = []
        while j < len(events) and events[j][0] == 'stmt' and events[j][1] != 'BEGIN':
            seg.append(j)
            j += 1
        if any(events[x][1:] == ('DELETE', 'allocations') for x in seg):
            main = seg
    if main is None or k not in main:
        return None
    idx = 0
    phase = 'pre'
    out = {}
    n_del = n_ins = n_rp = n_cons = 0
    for x in main:
        v, t = events[x][1], events[x][2]
        if phase == 'pre' and (v, t) == ('UPDATE', 'consumers'):
            out[x] = None
            continue
        if (v, t) == ('DELETE', 'allocations'):
            phase = 'del'
            out[x] = n_del
            n_del += 1
        elif v == 'SELECT' and phase in ('del', 'check') and t in ('resource_classes', 'resource_providers'):
            phase = 'check'
            out[x] = ('check',)
        elif (v, t) == ('INSERT', 'allocations'):
            phase = 'ins'
            out[x] = ('ins', n_ins)
            n_ins += 1
        elif (v, t) == ('UPDATE', 'resource_providers'):
            out[x] = ('rp', n_rp)
            n_rp += 1
        elif (v, t) == ('UPDATE', 'consumers'):
            out[x] = ('cons', n_cons)
            n_cons += 1
        elif t == 'consumers' and v in ('SELECT', 'DELETE'):
            # the first SELECT/DELETE pair is `_set_allocations`' own clean-up; a later pair belongs to the
            # handler (outside the retried function)
            seen_cleanup = sum(1 for y in out.values() if y == ('cleanup',))
            out[x] = ('cleanup',) if seen_cleanup < 2 and phase != 'after' else None
            if v == 'DELETE':
                phase = 'after'
        else:
            out[x] = None
    r = out.get(k)
    if r is None:
        return None
    if isinstance(r, int):
        return r
    base = n_del
    if r[0] == 'check':
        return base
    base += 1
    if r[0] == 'ins':
        return base + r[1]
    base += n_ins
    if r[0] == 'rp':
        return base + r[1]
    base += n_rp
    if r[0] == 'cons':
        return base + r[1]
    base += n_cons
    return base


def locate(events, k):
    """where in the request the statement k lies (part of every C17 signature, so that a listed finding covers
    only the call site it was found at):
      cleanup-txn               a transaction that only looks up / deletes consumer records (`delete_consumers` after a failed write)
      in-set-allocations        the main write transaction from its first DELETE FROM allocations on (the retried `_set_allocations`)
      main-txn-before-writes    the transaction that writes allocations, before that point (update_consumers, interim inventories)
      other                     anything else (look-ups, get-or-create transactions, other routes)"""
    seg, cur = [], []
    for i, e in enumerate(events):
        if e[0] != 'stmt':
            continue
        if e[1] == 'BEGIN' and cur:
            seg.append(cur)
            cur = []
        cur.append(i)
    if cur:
        seg.append(cur)
    for sg in seg:
        if k not in sg:
            continue
        vt = [(events[x][1], events[x][2]) for x in sg]
        writes = [x for x in vt if x[0] in ('INSERT', 'UPDATE', 'DELETE')]
        if ('DELETE', 'allocations') in vt or ('INSERT', 'allocations') in vt:
            first = min(x for x in sg if (events[x][1], events[x][2]) in (('DELETE', 'allocations'), ('INSERT', 'allocations')))
            return 'in-set-allocations' if k >= first else 'main-txn-before-writes'
        if writes and all(t == 'consumers' and v == 'DELETE' for v, t in writes):
            return 'cleanup-txn'
        if not writes and any(t == 'consumers' for v, t in vt) and sg is seg[-1] and len(seg) > 1 and \
                any(('DELETE', 'allocations') in [(events[x][1], events[x][2]) for x in o] or
                    ('INSERT', 'consumers') in [(events[x][1], events[x][2]) for x in o] for o in seg[:-1]):
            return 'cleanup-txn'
        first = next(((v, t) for v, t in vt if v != 'BEGIN'), ('BEGIN', ''))
        return 'txn[%s.%s]' % first       # a look-up / get-or-create transaction, named by its first statement
    return 'other'


def wellformed_error(r):
    j = r.json
    try:
        e = j['errors'][0]
        return isinstance(e['status'], int) and e['status'] == r.status and 'title' in e and 'detail' in e and 'request_id' in e
    except Exception:
        return False


def classify(pre, post, d, kind, op):
    a, b, c = core(pre), core(post), core(d)
    if c == b or c == a:
        return None
    # differs from the fault-free result only by generations that advanced further?
    def strip_gens(x):
        y = json.loads(json.dumps(x))
        for v in y['rps'].values():
            v['gen'] = 0
        for v in y['consumers'].values():
            v['gen'] = 0
        return y
    if strip_gens(c) == strip_gens(b):
        more = all(c['rps'][u]['gen'] >= b['rps'][u]['gen'] for u in b['rps']) and \
            all(c['consumers'][u]['gen'] >= b['consumers'][u]['gen'] for u in b['consumers'])
        return 'generations-advanced-twice' if more else 'generations-differ'
    def strip_attrs(x):
        y = json.loads(json.dumps(x))
        for v in y['consumers'].values():
            v['project'] = v['user'] = v['ctype'] = None
        return y
    if strip_attrs(c) == strip_attrs(b):
        return 'consumer-attributes-lost'
    if strip_attrs(strip_gens(c)) == strip_attrs(strip_gens(b)):
        return 'consumer-attributes-lost+generations-differ'
    holders = {x[1] for x in d['allocs']}
    idle = set(d['consumers']) - holders
    if idle:
        c2 = json.loads(json.dumps(c))
        for u in idle:
            c2['consumers'].pop(u)
        if c2 == a:
            return 'consumer-left-behind'        # the separate clean-up transaction failed
        if c2 == b:
            return 'allocations-removed-consumer-left-behind'   # DELETE /allocations: second transaction failed
    tables = sorted(k for k in c if c[k] != b[k])
    return 'state-differs:' + '+'.join(tables)


def case(args):
    seed, = args
    rng = random.Random(seed)
    out = {'seed': seed, 'violations': [], 'points': 0, 'requests': 0, 'by_kind': {}, 'outcomes': {}, 'samples': []}
    try:
        _APP.reset()
        g = corpus.build_state(_APP, rng)
        reqs = corpus.requests_for(_APP, rng, g)
        pre = _APP.dump()
        snap = _APP.snapshot()
        for (op, st0) in reqs:
            _APP.restore(snap)
            _INJ.reset()
            r0 = ops.apply_real(_APP, op)
            events = list(_INJ.events)
            post = _APP.dump()
            out['requests'] += 1
            k0 = '%s %s' % (op['op'], r0.status)
            out['by_kind'][k0] = out['by_kind'].get(k0, 0) + 1
            for k, ev in enumerate(events):
                if ev[0] != 'stmt':
                    continue
                for kind in KINDS:
                    # a duplicate-key error is only realistic where the code expects the race: the first
                    # recording of an aggregate uuid (`_ensure_aggregate`, retried by `_set_aggregates`)
                    if kind == 'duplicate' and not (ev[1] == 'INSERT' and ev[2] == 'placement_aggregates'):
                        continue
                    if kind.startswith('deadlock') and ev[1] == 'BEGIN':
                        pass
                    _APP.restore(snap)
                    _INJ.reset((k, kind))
                    try:
                        r = ops.apply_real(_APP, op)
                        st, wf = r.status, (r.status < 400 or wellformed_error(r))
                    except BaseException as e:      # an escaped exception is a violation by itself
                        r, st, wf = None, 'escaped:%s' % type(e).__name__, False
                    _INJ.armed = None
                    d = _APP.dump()
                    out['points'] += 1
                    cls = classify(pre, post, d, kind, op)
                    vio = []
                    same_as_post = core(d) == core(post)
                    same_as_pre = core(d) == core(pre)
                    if cls is not None:
                        vio.append(('c17:%s:%s:%s:%s' % (kind, op['op'], cls, locate(events, k)),
                                    'fault %s at statement %d (%s %s): status %s, state equals neither the fault-free result nor the state before' % (kind, k, ev[1], ev[2], st)))
                    elif same_as_post and not same_as_pre and st != r0.status:
                        vio.append(('c17:%s:%s:effect-applied-but-status-%s' % (kind, op['op'], st),
                                    'fault %s at statement %d: effect applied but answered %s instead of %s' % (kind, k, st, r0.status)))
                    elif same_as_pre and not same_as_post and isinstance(st, int) and st < 400:
                        vio.append(('c17:%s:%s:success-without-effect' % (kind, op['op']),
                                    'fault %s at statement %d: answered %s but nothing was applied' % (kind, k, st)))
                    if kind == 'duplicate' and cls is None and not (same_as_post and st == r0.status):
                        # the property promises a RETRY here: a duplicate-key race while an aggregate is first recorded
                        # must end in the fault-free result, not in a clean failure
                        vio.append(('c17:duplicate:%s:aggregate-race-not-retried' % op['op'],
                                    'duplicate key at statement %d (%s %s): answered %s (fault-free: %s), effect %s' % (
                                        k, ev[1], ev[2], st, r0.status, 'applied' if same_as_post else 'not applied')))
                    if not wf:
                        vio.append(('c17:%s:%s:malformed-error-response' % (kind, op['op']), 'status %s body %s' % (st, str(r.json)[:200] if r else '')))
                    oc = 'post' if same_as_post else ('pre' if same_as_pre else 'other')
                    ok = '%s:%s:%s' % (kind, st if not isinstance(st, int) else st // 100 * 100, oc)
                    out['outcomes'][ok] = out['outcomes'].get(ok, 0) + 1
                    # tie of Model/Fault.lean to the code: the statement-level retry model predicts the outcome
                    if op['op'] == 'alloc_put' and r0.status == 204 and op['c']['allocs'] and kind != 'duplicate' and isinstance(st, int):
                        mk = model_statement_index(events, k)
                        if mk is not None:
                            _MODEL.reset(list(orc.STANDARDS), sorted(os_traits.get_traits()),
                                         _APP.conf.placement.incomplete_consumer_project_id,
                                         _APP.conf.placement.incomplete_consumer_user_id)
                            load_dump(_MODEL, pre)
                            mr = _MODEL.send({'cmd': 'fault_put', 'op': op, 'k': mk, 'kind': kind})
                            out['model_fault_points'] = out.get('model_fault_points', 0) + 1
                            if 'error' in mr:
                                out['violations'].append({'kind': 'correspondence', 'signature': 'fault-model:driver-error', 'detail': mr['error'],
                                                          'replay': {'type': 'fault', 'op': op, 'fault': kind, 'statement': k}})
                            elif 'ok' in mr:
                                dd = diff_dumps(d, _MODEL.dump(), ['rps', 'invs', 'allocs', 'consumers'])
                                if (st < 300) != mr['ok'] or dd:
                                    out['violations'].append({'kind': 'correspondence',
                                                              'signature': 'fault-model:%s:%s' % (kind, 'status' if (st < 300) != mr['ok'] else 'state'),
                                                              'detail': 'statement %d (model %d) real status %s model ok=%s diff %s' % (k, mk, st, mr['ok'], json.dumps(dd)[:300]),
                                                              'replay': {'type': 'fault', 'module': 'harness.props.c17', 'start_dump': pre, 'op': op,
                                                                         'fault': kind, 'statement': k, 'model_statement': mk}})
                    for s, t in vio:
                        out['violations'].append({'kind': 'monitor', 'signature': s, 'detail': t, 'replay': {
                            'type': 'fault', 'module': 'harness.props.c17', 'start_dump': pre, 'op': op, 'fault': kind, 'statement': k,
                            'events': [e[0] + (':' + e[1] + '.' + e[2] if e[0] == 'stmt' else '') for e in events],
                            'fault_free_status': r0.status, 'observed_status': st, 'observed': t}})
            if len(out['samples']) < 1:
                out['samples'].append({'op': op, 'statements': sum(1 for e in events if e[0] == 'stmt'), 'status': r0.status})
        sync_faults(out, rng)
    except BaseException:      # incl. an escaped RequestHang: a dead pool worker would hang the check
        out['error'] = traceback.format_exc()
    return out


def sync_faults(out, rng):
    """start-up synchronisation of standard traits / classes under a deadlock at each statement, from
    empty and partially filled tables; the aggregate-creation duplicate-key race"""
    from placement import deploy
    from placement.objects import trait, resource_class
    for variant in ('empty', 'partial'):
        _APP.reset()
        if variant == 'empty':
            _APP.sql('delete from traits')
            _APP.sql('delete from resource_classes')
        else:
            _APP.sql("delete from traits where id % 3 = 0")
            _APP.sql("delete from resource_classes where id % 2 = 1")
        snap = _APP.snapshot()
        trait._TRAITS_SYNCED = False
        resource_class._RESOURCE_CLASSES_SYNCED = False
        _INJ.reset()
        deploy.update_database(_APP.conf)
        events = list(_INJ.events)
        want = _APP.dump()
        want_rows = (_APP.sql('select count(*) from traits')[0][0], sorted(_APP.sql('select id, name from resource_classes')))
        for k, ev in enumerate(events):
            if ev[0] != 'stmt':
                continue
            for kind in ('deadlock', 'deadlock_rb'):
                _APP.restore(snap)
                trait._TRAITS_SYNCED = False
                resource_class._RESOURCE_CLASSES_SYNCED = False
                _INJ.reset((k, kind))
                err = None
                try:
                    deploy.update_database(_APP.conf)
                except Exception as e:
                    err = repr(e)
                _INJ.armed = None
                got_rows = (_APP.sql('select count(*) from traits')[0][0], sorted(_APP.sql('select id, name from resource_classes')))
                out['points'] += 1
                ok = 'sync-%s:%s:%s' % (variant, kind, 'ok' if got_rows == want_rows else 'differs')
                out['outcomes'][ok] = out['outcomes'].get(ok, 0) + 1
                if got_rows != want_rows or err:
                    out['violations'].append({'kind': 'monitor', 'signature': 'c17:%s:startup-sync:%s' % (kind, 'error' if err else 'tables-differ'),
                                              'detail': 'statement %d %s: %s; traits %s classes %s' % (k, ev, err, got_rows[0], len(got_rows[1])),
                                              'replay': {'type': 'sync-fault', 'variant': variant, 'fault': kind, 'statement': k}})
            # any other database fault: the start-up fails cleanly, and the NEXT start-up in the same interpreter (the
            # synchronised flags are module globals and are not reset) completes the synchronisation
            _APP.restore(snap)
            trait._TRAITS_SYNCED = False
            resource_class._RESOURCE_CLASSES_SYNCED = False
            _INJ.reset((k, 'dberror'))
            err = None
            try:
                deploy.update_database(_APP.conf)
            except Exception as e:
                err = repr(e)
            _INJ.armed = None
            err2 = None
            try:
                deploy.update_database(_APP.conf)
            except Exception as e:
                err2 = repr(e)
            got_rows = (_APP.sql('select count(*) from traits')[0][0], sorted(_APP.sql('select id, name from resource_classes')))
            out['points'] += 1
            ok = 'sync-%s:dberror-then-restart:%s' % (variant, 'ok' if got_rows == want_rows and not err2 else 'differs')
            out['outcomes'][ok] = out['outcomes'].get(ok, 0) + 1
            if got_rows != want_rows or err2:
                out['violations'].append({'kind': 'monitor', 'signature': 'c17:dberror:startup-sync:next-start-%s' % ('error' if err2 else 'incomplete'),
                                          'detail': 'statement %d %s failed (%s); the next start-up: %s; traits %s classes %s'
                                          % (k, ev, err, err2, got_rows[0], len(got_rows[1])),
                                          'replay': {'type': 'sync-fault', 'variant': variant, 'fault': 'dberror-then-restart', 'statement': k}})
    _APP.reset()
    trait._TRAITS_SYNCED = True
    resource_class._RESOURCE_CLASSES_SYNCED = True


def replay(doc):
    from harness import stateload
    _init()
    rp = doc['replay']
    if rp.get('type') != 'fault':
        print('only request faults are re-run automatically')
        return 0
    stateload.load_into_app(_APP, rp['start_dump'])
    pre = _APP.dump()
    snap = _APP.snapshot()
    _INJ.reset()
    r0 = ops.apply_real(_APP, rp['op'])
    post = _APP.dump()
    _APP.restore(snap)
    _INJ.reset((rp['statement'], rp['fault']))
    try:
        r = ops.apply_real(_APP, rp['op'])
        st = r.status
    except BaseException as e:
        st = 'escaped:%s' % type(e).__name__
    _INJ.armed = None
    d = _APP.dump()
    cls = classify(pre, post, d, rp['fault'], rp['op'])
    print('fault-free status', r0.status, 'with fault', st, 'classification', cls)
    # the recorded signature is `c17:<fault>:<op>:<classification>[:<where the fault struck>]`
    hit = cls is not None and (':%s:' % cls in doc.get('signature', '') + ':')
    print('REPRODUCED' if hit else 'not reproduced')
    return 1 if hit else 0


def run(chk):
    if not getattr(chk, 'no_lean', False):
        chk.lean_stage(META['lean_module'], exe=True)
    n = 10 if chk.tier == 'quick' else 100
    ctx = mp.get_context('fork')
    errors = []
    with ppool.Pool(ctx, min(16, os.cpu_count() or 4), initializer=_init) as pool:
        for res in pool.imap_unordered(case, [(chk.seed * 15485863 + i,) for i in range(n)]):
            if 'error' in res:
                errors.append(res['error'])
                continue
            chk.cov['evaluations'] += res['points']
            chk.count('fault_points', res['points'])
            chk.count('fault_points_compared_with_lean_fault_model', res.get('model_fault_points', 0))
            chk.count('requests', res['requests'])
            for k, v in res['by_kind'].items():
                chk.tally('requests_by_kind_status', k, v)
                chk._distinct.add(k)
            for k, v in res['outcomes'].items():
                chk.tally('outcomes', k, v)
            for s in res['samples']:
                chk.sample(s)
            for x in res['violations']:
                chk.violation(x['kind'], x['signature'], x.get('detail', ''), x['replay'])
    if errors:
        raise RuntimeError('worker errors:\n' + errors[0])
    chk.cov['exhaustive'] = True
    chk.cov['rule'] = ('corpus: %d start states x one request of each of 24 write kinds; for each request ONE fault at EVERY SQL statement '
                       '(incl. BEGIN) x kinds deadlock (no rollback), deadlock after server-side rollback, generic DBError, and duplicate-key '
                       'at INSERTs; plus start-up synchronisation from empty and partial tables under a deadlock at every statement; '
                       'distinct = (operation, fault-free status) pairs' % n)
