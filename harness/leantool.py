"""Lean stage of a check: regenerate Gen/ from /repo, build, audit."""
import fcntl
import glob
import hashlib
import json
import os
import re
import subprocess
import sys
import time

from harness.common import LEAN, ROOT, ALLOWED_AXIOMS, FORBIDDEN

LOCK = os.path.join(LEAN, '.build.lock')


def _strip_comments(src):
    src = re.sub(r'/-.*?-/', lambda m: '\n' * m.group(0).count('\n'), src, flags=re.S)
    src = re.sub(r'--.*', '', src)
    # string literals may legitimately contain the words
    src = re.sub(r'"(\\.|[^"\\])*"', '""', src)
    return src


def forbidden_hits():
    hits = []
    for p in glob.glob(os.path.join(LEAN, '**', '*.lean'), recursive=True):
        if '/.lake/' in p:
            continue
        with open(p) as f:
            src = _strip_comments(f.read())
        for i, line in enumerate(src.split('\n'), 1):
            if FORBIDDEN.search(line):
                hits.append('%s:%d: %s' % (os.path.relpath(p, LEAN), i, line.strip()[:120]))
    return hits


def declared_theorems(module):
    path = os.path.join(LEAN, module.replace('.', '/') + '.lean')
    with open(path) as f:
        src = _strip_comments(f.read())
    return re.findall(r'^\s*(?:@\[[^\]]*\]\s*)?(?:private\s+|protected\s+)?theorem\s+([^\s:({\[]+)', src, flags=re.M)


AUDIT_TMPL = '''import Lean
import %(module)s
open Lean Elab Command
run_cmd do
  let env ← getEnv
  let some idx := env.getModuleIdx? `%(module)s | throwError "module not found"
  for n in env.header.moduleData[idx.toNat]!.constNames do
    if let some (.thmInfo _) := env.find? n then
      if !n.isInternal then
        let axs ← Lean.collectAxioms n
        IO.println s!"THEOREM {n} AXIOMS {axs.toList}"
'''


def run_extract():
    """Regenerate lean/Placement/Gen/*.lean from the working tree of /repo.
    Returns a list of error strings (empty = fine)."""
    p = subprocess.run([sys.executable, os.path.join(ROOT, 'harness', 'extract.py')],
                       capture_output=True, text=True, cwd=ROOT)
    errs = []
    if p.returncode != 0:
        errs = [l for l in (p.stdout + p.stderr).split('\n') if l.strip()][-25:]
    return errs


def gen_diff():
    """Generated definitions that differ from the committed snapshot (= what the unchanged tree yields)."""
    try:
        p = subprocess.run(['git', '-C', ROOT, 'diff', '-U0', '--', 'lean/Placement/Gen'],
                           capture_output=True, text=True)
        out = [l for l in p.stdout.split('\n') if re.match(r'^[-+][^-+]', l)]
        return out[:60]
    except Exception as e:
        return ['git diff failed: %s' % e]


def import_closure(module):
    """the modules of this project that `module` imports, transitively (itself included)"""
    seen, todo = [], [module]
    while todo:
        m = todo.pop()
        if m in seen:
            continue
        path = os.path.join(LEAN, m.replace('.', '/') + '.lean')
        if not os.path.exists(path):
            continue
        seen.append(m)
        with open(path) as f:
            for line in f:
                mm = re.match(r'^\s*import\s+(Placement(?:\.[A-Za-z0-9_]+)*)\s*$', line)
                if mm:
                    todo.append(mm.group(1))
    return sorted(seen)


def recheck(module):
    """thorough tier: re-check the compiled declarations of the property module and of everything of this project it
    imports with `leanchecker` (the toolchain's independent kernel re-checker of .olean files)"""
    mods = import_closure(module)
    t0 = time.time()
    q = subprocess.run(['lake', 'env', 'leanchecker'] + mods, capture_output=True, text=True, cwd=LEAN)
    return {'modules': len(mods), 'ok': q.returncode == 0, 'wall_s': round(time.time() - t0, 1),
            'output_tail': (q.stdout + q.stderr)[-600:]}


def stage(module, extract=True, exe=False, thorough=False):
    res = {'module': module, 'ok': True, 'theorems': [], 'axioms': {}, 'broken': [], 'extract_errors': [],
           'audit': [], 'log_tail': []}
    os.makedirs(LEAN, exist_ok=True)
    with open(LOCK, 'w') as lk:
        fcntl.flock(lk, fcntl.LOCK_EX)
        if extract:
            res['extract_errors'] = run_extract()
            if res['extract_errors']:
                res['ok'] = False
        res['gen_diff'] = gen_diff()
        targets = [module] + (['placement-driver'] if exe else [])
        p = subprocess.run(['lake', 'build'] + targets, capture_output=True, text=True, cwd=LEAN)
        log = p.stdout + p.stderr
        if p.returncode != 0:
            res['ok'] = False
            res['log_tail'] = [l for l in log.split('\n') if l.strip()][-40:]
            res['broken'] = broken_decls(log)
        try:
            res['theorems'] = declared_theorems(module)
        except IOError:
            res['theorems'] = []
        hits = forbidden_hits()
        if hits:
            res['ok'] = False
            res['audit'] += ['forbidden construct: ' + h for h in hits]
        if p.returncode == 0:
            audit_src = AUDIT_TMPL % {'module': module}
            apath = os.path.join(LEAN, '.audit_%s.lean' % module.replace('.', '_'))
            with open(apath, 'w') as f:
                f.write(audit_src)
            q = subprocess.run(['lake', 'env', 'lean', apath], capture_output=True, text=True, cwd=LEAN)
            os.unlink(apath)
            found = {}
            for m in re.finditer(r'THEOREM (\S+) AXIOMS \[(.*?)\]', q.stdout):
                found[m.group(1)] = [a.strip() for a in m.group(2).split(',') if a.strip()]
            if q.returncode != 0:
                res['ok'] = False
                res['audit'].append('axiom audit failed: ' + (q.stdout + q.stderr)[-400:])
            declared = set(res['theorems'])
            full = {}
            for n, axs in found.items():
                short = n.split('.')[-1]
                if short in declared or n in declared:
                    full[n] = axs
                    bad = [a for a in axs if a not in ALLOWED_AXIOMS]
                    if bad:
                        res['ok'] = False
                        res['audit'].append('theorem %s depends on axioms %s' % (n, bad))
            res['axioms'] = full
            missing = [t for t in declared if not any(n == t or n.endswith('.' + t) for n in full)]
            if missing:
                res['ok'] = False
                res['audit'].append('declared but not found in compiled module: %s' % missing)
            res['theorems'] = sorted(full) if full else res['theorems']
            if thorough:
                rc = recheck(module)
                res['leanchecker'] = rc
                if not rc['ok']:
                    res['ok'] = False
                    res['audit'].append('leanchecker rejected the compiled modules: ' + rc['output_tail'])
    return res


def broken_decls(log):
    """Map `file:line:col: error` lines to the enclosing theorem/def names."""
    out = []
    for m in re.finditer(r'^(?:error: )?(\S+\.lean):(\d+):(\d+):(?: error)?', log, flags=re.M):
        if not (m.group(0).startswith('error') or m.group(0).rstrip().endswith('error')):
            continue
        path, line = m.group(1), int(m.group(2))
        full = path if os.path.isabs(path) else os.path.join(LEAN, path)
        name = None
        try:
            with open(full) as f:
                lines = f.read().split('\n')
            for i in range(min(line, len(lines)) - 1, -1, -1):
                mm = re.match(r'^\s*(?:@\[[^\]]*\]\s*)?(?:private\s+|protected\s+)?(theorem|def|lemma|instance|example|abbrev)\s+([^\s:({\[]+)?', lines[i])
                if mm:
                    name = '%s %s' % (mm.group(1), mm.group(2) or '')
                    break
        except IOError:
            pass
        out.append('%s:%d %s' % (os.path.relpath(full, LEAN), line, name or ''))
    seen, uniq = set(), []
    for o in out:
        if o not in seen:
            seen.add(o)
            uniq.append(o)
    return uniq[:30]


def driver_path():
    return os.path.join(LEAN, '.lake', 'build', 'bin', 'placement-driver')
