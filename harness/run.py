import argparse
import importlib
import os
import signal
import sys
import threading
import traceback


def watchdog(seconds, what):
    """a check must end: a dead pool worker (or anything else that blocks for good) would otherwise hang it.  After
    `seconds` the whole process group is ended with the infrastructure status 2 (never 1: a time-out is no violation)."""
    def fire():
        sys.stdout.write('INFRASTRUCTURE-ERROR in check %s: no result after %d s (watchdog)\n' % (what, seconds))
        sys.stdout.flush()
        try:
            import multiprocessing
            for c in multiprocessing.active_children():
                c.kill()
        except Exception:
            pass
        os._exit(2)
    t = threading.Timer(seconds, fire)
    t.daemon = True
    t.start()


def main():
    ap = argparse.ArgumentParser()
    ap.add_argument('prop')
    ap.add_argument('path', nargs='?')
    ap.add_argument('--tier', default=os.environ.get('VERIF_TIER', 'quick'), choices=['quick', 'thorough'])
    ap.add_argument('--seed', type=int, default=int(os.environ.get('VERIF_SEED', '1')))
    ap.add_argument('--no-lean', action='store_true', help='development only: skip the Lean stage')
    a = ap.parse_args()
    try:
        if a.prop == 'replay':
            from harness import replay
            sys.exit(replay.main(a.path))
        from harness.common import Check
        watchdog(int(os.environ.get('VERIF_WATCHDOG_S', '2400' if a.tier == 'quick' else '21600')), a.prop)
        mod = importlib.import_module('harness.props.%s' % a.prop.lower())
        chk = Check(a.prop.upper(), a.tier, a.seed, level=mod.META.get('category', 'proof'))
        chk.no_lean = a.no_lean
        mod.run(chk)
        code = chk.finish()
    except SystemExit:
        raise
    except BaseException:
        traceback.print_exc()
        print('INFRASTRUCTURE-ERROR in check %s' % a.prop)
        sys.exit(2)
    sys.exit(code)


if __name__ == '__main__':
    main()
