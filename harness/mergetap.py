"""Tie of `lean/Placement/Model/Merge.lean` to the code: records what the real `_merge_candidates` is given
(per-group allocation requests WITH the identity of their shared AllocationRequestResource objects, and the
request-wide context it reads) and what it returns, and replays the same input through the compiled model
(driver command `merge`).  The two results must be the same multiset of (amounts, mappings)."""
import collections


class MergeTap(object):
    def __init__(self):
        self.calls = []
        self.ac = None

    def install(self):
        from placement.objects import allocation_candidate as ac
        if self.ac is not None:
            return
        self.ac = ac
        self.orig = ac._merge_candidates
        tap = self

        def wrapped(candidates, rw_ctx):
            rec = tap.snapshot(candidates, rw_ctx)
            out = tap.orig(candidates, rw_ctx)
            rec['real'] = tap.canon([([(rec['rp'](a.resource_provider.id), rec['C'](a.resource_class), a.amount)
                                        for a in areq.resource_requests],
                                       [(rec['S'](s), [rec['U'](p) for p in ps]) for s, ps in areq.mappings.items()])
                                      for areq in out[0]])
            for k in ('rp', 'C', 'S', 'U'):
                rec.pop(k)
            tap.calls.append(rec)
            return out
        ac._merge_candidates = wrapped

    def uninstall(self):
        if self.ac is not None:
            self.ac._merge_candidates = self.orig
            self.ac = None

    @staticmethod
    def canon(areqs):
        return sorted((tuple(sorted(map(tuple, arrs))), tuple(sorted((s, tuple(sorted(ps))) for s, ps in maps)))
                      for arrs, maps in areqs)

    @staticmethod
    def snapshot(candidates, rw_ctx):
        tables = {k: {} for k in 'CSU'}

        def mk(k):
            t = tables[k]

            def f(x):
                if x not in t:
                    t[x] = len(t) + 1
                return t[x]
            return f
        C, S, U = mk('C'), mk('S'), mk('U')
        store, ident = [], {}
        groups = []
        # hypotheses of Props/C03Merge.lean (`MergeSpec.specCombo`): the request of a suffixed group maps its own suffix
        # to ONE provider and has all its resources there; a request of the unsuffixed group maps '' only; '' is not a
        # member of a same_subtree set
        shape = []
        for suffix, areqs in candidates.items():
            lst = []
            for areq in areqs:
                provs = {arr.resource_provider.uuid for arr in areq.resource_requests}
                mp = {s_: set(ps_) for s_, ps_ in areq.mappings.items()}
                if suffix != '':
                    if list(mp) != [suffix] or len(mp[suffix]) != 1 or not provs <= mp[suffix] or not areq.use_same_provider:
                        shape.append('group %r: mappings %r, resources on %r, use_same_provider=%r'
                                     % (suffix, mp, sorted(provs), areq.use_same_provider))
                elif list(mp) != [''] or areq.use_same_provider:
                    shape.append('unsuffixed group: mappings %r, use_same_provider=%r' % (mp, areq.use_same_provider))
                ids = []
                for arr in areq.resource_requests:
                    if id(arr) not in ident:
                        ident[id(arr)] = len(store)
                        store.append([arr.resource_provider.id, C(arr.resource_class), arr.amount])
                    ids.append(ident[id(arr)])
                lst.append({'anchor': U(areq.anchor_root_provider_uuid), 'same': bool(areq.use_same_provider), 'arrs': ids,
                            'maps': [[S(s), sorted(U(p) for p in ps)] for s, ps in areq.mappings.items()]})
            groups.append([S(suffix), lst])
        ctx = {'policy_none': rw_ctx.group_policy == 'none', 'isolate': rw_ctx.group_policy == 'isolate',
               'multi': sorted(C(rc) for rc in rw_ctx.multi_group_rcs),
               'num_granular': len(set(candidates) - {''}),
               'same_subtrees': [sorted(S(s) for s in ss) for ss in rw_ctx.same_subtrees],
               'parents': [[U(k), (U(v) if v is not None else None)] for k, v in rw_ctx.parent_uuid_by_rp_uuid.items()],
               'limits': [[k[0], C(k[1]), p.used, p.capacity, p.max_unit] for k, p in rw_ctx.psum_res_by_rp_rc.items()]}
        shared = len(store) < sum(len(a['arrs']) for _, l in groups for a in l)
        if any('' in ss for ss in rw_ctx.same_subtrees):
            shape.append('same_subtree names the unsuffixed group: %r' % (rw_ctx.same_subtrees,))
        return {'cmd': {'cmd': 'merge', 'store': store, 'groups': groups, 'ctx': ctx}, 'shared_objects': shared, 'shape': shape,
                'rp': (lambda x: x), 'C': C, 'S': S, 'U': U}

    def check(self, model):
        """replay the recorded calls through the model; -> list of (signature, detail, replay object)"""
        out = []
        calls, self.calls = self.calls, []
        for rec in calls:
            # hypothesis of `consolidation_pure_and_adds_up` (Props/C02Merge.lean): a (provider, class) placed by two
            # different request groups is of a class the request-wide context lists in multi_group_rcs
            c = rec['cmd']
            seen = {}
            for gi, (_, lst) in enumerate(c['groups']):
                for a in lst:
                    for i in a['arrs']:
                        seen.setdefault((c['store'][i][0], c['store'][i][1]), set()).add(gi)
            bad = [k for k, gs in seen.items() if len(gs) > 1 and k[1] not in c['ctx']['multi']]
            if bad:
                out.append(('corr:merge:multi-group-class-not-listed', 'keys placed by several groups whose class is not in '
                            'multi_group_rcs: %s' % bad[:3], c))
            if rec.get('shape'):
                out.append(('corr:merge:combination-shape', 'an allocation request handed to _merge_candidates is not of the shape '
                            'the theorems of Props/C03Merge.lean assume: %s' % rec['shape'][:2], c))
            mr = model.send(rec['cmd'])
            if 'error' in mr:
                out.append(('corr:merge:driver-error', mr['error'], rec['cmd']))
                continue
            got = self.canon([([tuple(a) for a in m['arrs']], [(s, ps) for s, ps in m['maps']]) for m in mr['merged']])
            if got != rec['real']:
                rc, gc = collections.Counter(rec['real']), collections.Counter(got)
                out.append(('corr:merge:result-differs',
                            'real _merge_candidates returned %d requests, the model %d; only real: %s; only model: %s' % (
                                len(rec['real']), len(got), list((rc - gc).elements())[:2], list((gc - rc).elements())[:2]),
                            rec['cmd']))
        return out, len(calls)
