"""Abstract operations <-> HTTP requests of the real API.  The same abstract operation (a JSON
object) is sent to the Lean driver unchanged."""
import json

MAX_INT = 0x7FFFFFFF


def inv(rc, total, reserved=0, min_unit=1, max_unit=MAX_INT, step_size=1, ratio=1.0):
    return {'rc': rc, 'total': total, 'reserved': reserved, 'min_unit': min_unit, 'max_unit': max_unit,
            'step_size': step_size, 'ratio': ratio}


_INV_DEFAULTS = {'reserved': 0, 'min_unit': 1, 'max_unit': MAX_INT, 'step_size': 1, 'allocation_ratio': 1.0}


def _inv_body(i):
    """the body of one inventory; a field whose value is the documented default is LEFT OUT about every other time
    (decided by the values themselves, so that a replay sends the same bytes): the service must fill in the default"""
    b = {'total': i['total'], 'reserved': i['reserved'], 'min_unit': i['min_unit'], 'max_unit': i['max_unit'],
         'step_size': i['step_size'], 'allocation_ratio': i['ratio']}
    import zlib
    for k, dflt in _INV_DEFAULTS.items():
        if b[k] == dflt and zlib.crc32(('%s|%s|%s' % (i.get('rc'), i['total'], k)).encode()) % 2 == 0:
            del b[k]
    return b


def _group(allocs):
    d = {}
    for rp, rc, n in allocs:
        d.setdefault(rp, {})[rc] = n
    return d


def _consumer_body(mv, c, post=False):
    g = _group(c['allocs'])
    if mv < 12 and not post:
        body = {'allocations': [{'resource_provider': {'uuid': rp}, 'resources': res} for rp, res in g.items()]}
    else:
        body = {'allocations': {rp: {'resources': res} for rp, res in g.items()}}
    if mv >= 8 or post:
        body['project_id'] = c['project']
        body['user_id'] = c['user']
    if mv >= 28:
        body['consumer_generation'] = c['gen']
    if mv >= 38:
        body['consumer_type'] = c['ctype']
    return body


def to_http(op):
    """-> (method, path, body or None, version string)"""
    o = op['op']
    mv = op.get('mv', 39)
    v = '1.%d' % mv
    if o == 'rp_create':
        b = {'name': op['name'], 'uuid': op['uuid']}
        if op.get('parent') is not None:
            b['parent_provider_uuid'] = op['parent']
        return 'POST', '/resource_providers', b, v
    if o == 'rp_update':
        b = {'name': op['name']}
        if op.get('has_parent'):
            b['parent_provider_uuid'] = op.get('parent')
        return 'PUT', '/resource_providers/%s' % op['uuid'], b, v
    if o == 'rp_delete':
        return 'DELETE', '/resource_providers/%s' % op['uuid'], None, v
    if o == 'inv_set':
        return 'PUT', '/resource_providers/%s/inventories' % op['uuid'], {
            'resource_provider_generation': op['gen'],
            'inventories': {i['rc']: _inv_body(i) for i in op['invs']}}, v
    if o == 'inv_add':
        b = _inv_body(op['inv'])
        b['resource_class'] = op['inv']['rc']
        return 'POST', '/resource_providers/%s/inventories' % op['uuid'], b, v
    if o == 'inv_update':
        b = _inv_body(op['inv'])
        b['resource_provider_generation'] = op['gen']
        return 'PUT', '/resource_providers/%s/inventories/%s' % (op['uuid'], op['inv']['rc']), b, v
    if o == 'inv_delete':
        return 'DELETE', '/resource_providers/%s/inventories/%s' % (op['uuid'], op['rc']), None, v
    if o == 'inv_delete_all':
        return 'DELETE', '/resource_providers/%s/inventories' % op['uuid'], None, v
    if o == 'trait_put':
        return 'PUT', '/traits/%s' % op['name'], None, v
    if o == 'trait_delete':
        return 'DELETE', '/traits/%s' % op['name'], None, v
    if o == 'rp_traits_set':
        return 'PUT', '/resource_providers/%s/traits' % op['uuid'], {
            'resource_provider_generation': op['gen'], 'traits': op['traits']}, v
    if o == 'rp_traits_delete':
        return 'DELETE', '/resource_providers/%s/traits' % op['uuid'], None, v
    if o == 'rc_post':
        return 'POST', '/resource_classes', {'name': op['name']}, v
    if o == 'rc_put':
        return 'PUT', '/resource_classes/%s' % op['name'], None, '1.%d' % max(mv, 7)
    if o == 'rc_rename':
        return 'PUT', '/resource_classes/%s' % op['old'], {'name': op['new']}, '1.%d' % min(max(mv, 2), 6)
    if o == 'rc_delete':
        return 'DELETE', '/resource_classes/%s' % op['name'], None, v
    if o == 'aggs_set':
        if mv >= 19:
            b = {'resource_provider_generation': op['gen'], 'aggregates': op['aggs']}
        else:
            b = op['aggs']
        return 'PUT', '/resource_providers/%s/aggregates' % op['uuid'], b, v
    if o == 'alloc_put':
        return 'PUT', '/allocations/%s' % op['c']['uuid'], _consumer_body(mv, op['c']), v
    if o == 'alloc_post':
        return 'POST', '/allocations', {c['uuid']: _consumer_body(mv, c, post=True) for c in op['cs']}, v
    if o == 'alloc_delete':
        return 'DELETE', '/allocations/%s' % op['consumer'], None, v
    if o == 'reshape':
        return 'POST', '/reshaper', {
            'inventories': {r['uuid']: {'resource_provider_generation': r['gen'],
                                        'inventories': {i['rc']: _inv_body(i) for i in r['invs']}}
                            for r in op['invs']},
            'allocations': {c['uuid']: _consumer_body(mv, c, post=True) for c in op['cs']}}, v
    raise ValueError(o)


def apply_real(app, op):
    m, p, b, v = to_http(op)
    return app.call(m, p, body=b, version=v)


def error_code(resp):
    try:
        return resp.json['errors'][0].get('code', '')
    except Exception:
        return ''
