"""History runner: random operation sequences through the real application and the Lean model,
with correspondence comparison and property monitors after every step.  Used by the checks of the
history properties (C01, C04, C08, C09, C10, C11, C12)."""
from harness import ppool
import json
import multiprocessing as mp
import os
import random
import time
import traceback

import os_resource_classes as orc
import os_traits

from harness import gen, monitors, ops
from harness.model import Model, diff_dumps

_APP = None
_MODEL = None
_SHRUNK = set()        # signatures already minimised in this worker (one minimised replay per signature is enough)
_SHRINK_SPENT = [0.0]  # seconds spent shrinking in this worker; capped so that a broken tree does not stall the check


def _init(use_model):
    global _APP, _MODEL
    from harness.app import App
    _APP = App()
    _MODEL = Model() if use_model else None


def app():
    return _APP


def reset_both():
    _APP.reset()
    if _MODEL is not None:
        _MODEL.reset(list(orc.STANDARDS), sorted(os_traits.get_traits()),
                     _APP.conf.placement.incomplete_consumer_project_id,
                     _APP.conf.placement.incomplete_consumer_user_id)


def run_ops(oplist, mons, footprint=None, use_model=True, stop_at_first=True):
    """Run a fixed operation list on a fresh database. Returns (violations, records_count).
    violation = dict(kind, signature, detail, index)."""
    reset_both()
    before = _APP.dump()
    vio = []
    for i, op in enumerate(oplist):
        r = ops.apply_real(_APP, op)
        after = _APP.dump()
        rec = monitors.Record(op, r, before, after, i)
        for m in mons:
            for sig, detail in monitors.MONITORS[m](rec):
                vio.append({'kind': 'monitor', 'monitor': m, 'signature': sig, 'detail': detail, 'index': i,
                            'status': r.status})
        if r.status == 599:
            vio.append({'kind': 'monitor', 'monitor': 'terminates', 'signature': 'request-did-not-terminate:%s' % op['op'],
                        'index': i, 'detail': str(r.json)[:200], 'status': r.status})
        elif r.status >= 500:
            vio.append({'kind': 'monitor', 'monitor': 'no5xx', 'signature': '5xx:%s' % op['op'], 'index': i,
                        'detail': str(r.json)[:300], 'status': r.status})
        if use_model and _MODEL is not None:
            mr = _MODEL.send(op)
            if 'error' in mr:
                vio.append({'kind': 'correspondence', 'signature': 'driver-error', 'detail': mr['error'], 'index': i})
            else:
                if r.status != mr['status'] or (op.get('mv', 39) >= 23 and ops.error_code(r) != mr['code']):
                    vio.append({'kind': 'correspondence', 'signature': 'status:%s' % op['op'], 'index': i,
                                'detail': 'real %s %s, model %s %s' % (r.status, ops.error_code(r), mr['status'], mr['code'])})
                d = diff_dumps(after, _MODEL.dump(), footprint)
                if d:
                    vio.append({'kind': 'correspondence', 'signature': 'state:%s:%s' % (op['op'], '+'.join(x['table'] for x in d)),
                                'index': i, 'detail': json.dumps(d)[:600]})
        if vio and stop_at_first:
            break
        before = after
    return vio


def shrink(oplist, sig, mons, use_model, budget_s=8.0):
    """greedy removal of operations while the same signature still shows up"""
    t0 = time.time()
    cur = list(oplist)

    def fails(ol):
        try:
            return any(v['signature'] == sig for v in run_ops(ol, mons, use_model=use_model))
        except Exception:
            return False
    i = len(cur) - 2
    while i >= 0 and time.time() - t0 < budget_s:
        cand = cur[:i] + cur[i + 1:]
        if fails(cand):
            cur = cand
        i -= 1
    return cur


def case(args):
    """one generated history"""
    seed, nops, profile, mons, use_model = args
    rng = random.Random(seed)
    g = gen.Gen(rng, weights=profile.get('weights'), n_rps=profile.get('n_rps', 8), mv_mode=profile.get('mv_mode', 'mixed'))
    stats = {'ops': 0, 'by_op_status': {}, 'by_mv': {}}
    out = {'seed': seed, 'violations': [], 'stats': stats}
    try:
        from harness import app as app_mod
        if app_mod.HANGS[0] >= 2:
            # requests of this tree do not terminate (already reported twice by this worker): no more histories
            return out
        reset_both()
        before = _APP.dump()
        hist = []
        for i in range(nops):
            v = gen.View(before)
            op = g.op(v)
            hist.append(op)
            r = ops.apply_real(_APP, op)
            after = _APP.dump()
            stats['ops'] += 1
            k = '%s %s' % (op['op'], r.status)
            stats['by_op_status'][k] = stats['by_op_status'].get(k, 0) + 1
            mvk = str(op.get('mv', 39))
            stats['by_mv'][mvk] = stats['by_mv'].get(mvk, 0) + 1
            rec = monitors.Record(op, r, before, after, i)
            vio = []
            for m in mons:
                for sig, detail in monitors.MONITORS[m](rec):
                    vio.append({'kind': 'monitor', 'monitor': m, 'signature': sig, 'detail': detail, 'index': i, 'status': r.status})
            if r.status == 599:
                vio.append({'kind': 'monitor', 'monitor': 'terminates', 'signature': 'request-did-not-terminate:%s' % op['op'],
                            'index': i, 'detail': str(r.json)[:200], 'status': r.status})
            if r.status >= 500 and 'no5xx' in profile.get('extra', ()):
                vio.append({'kind': 'monitor', 'monitor': 'no5xx', 'signature': '5xx:%s' % op['op'], 'index': i,
                            'detail': str(r.json)[:300], 'status': r.status})
            if use_model:
                mr = _MODEL.send(op)
                if 'error' in mr:
                    vio.append({'kind': 'correspondence', 'signature': 'driver-error', 'detail': mr['error'], 'index': i})
                else:
                    if r.status != mr['status'] or (op.get('mv', 39) >= 23 and ops.error_code(r) != mr['code']):
                        vio.append({'kind': 'correspondence', 'signature': 'status:%s' % op['op'], 'index': i,
                                    'detail': 'real %s %s, model %s %s' % (r.status, ops.error_code(r), mr['status'], mr['code'])})
                    d = diff_dumps(after, _MODEL.dump(), profile.get('footprint'))
                    if d:
                        vio.append({'kind': 'correspondence', 'signature': 'state:%s:%s' % (op['op'], '+'.join(x['table'] for x in d)),
                                    'index': i, 'detail': json.dumps(d)[:600]})
            if vio:
                seen = set()
                for x in vio:
                    if x['signature'] in seen:
                        continue
                    seen.add(x['signature'])
                    if len(hist) > 1 and x['signature'] not in _SHRUNK and _SHRINK_SPENT[0] < 24.0:
                        _SHRUNK.add(x['signature'])
                        t_s = time.time()
                        small = shrink(hist, x['signature'], mons, use_model and x['kind'] == 'correspondence')
                        _SHRINK_SPENT[0] += time.time() - t_s
                    else:
                        small = hist
                    x['replay'] = {'type': 'history', 'ops': small, 'monitors': list(mons), 'seed': seed,
                                   'expected': 'no violation of the monitored property / model agreement',
                                   'observed': x['detail']}
                    out['violations'].append(x)
                # after a violation the two sides may have diverged: end this history
                break
            before = after
    except BaseException:      # incl. an escaped RequestHang: a dead pool worker would hang the check
        out['error'] = traceback.format_exc()
    return out


def run_histories(chk, n_cases, nops, profile, mons, use_model=True, procs=None):
    """drive n_cases histories over worker processes; fold results into the Check"""
    procs = procs or min(16, os.cpu_count() or 4)
    ctx = mp.get_context('fork')
    seeds = [chk.seed * 1000003 + i for i in range(n_cases)]
    agg = {}
    errors = []
    with ppool.Pool(ctx, procs, initializer=_init, initargs=(use_model,)) as pool:
        for res in pool.imap_unordered(case, [(s, nops, profile, tuple(mons), use_model) for s in seeds], chunksize=2):
            if 'error' in res:
                errors.append(res['error'])
                continue
            st = res['stats']
            chk.cov['evaluations'] += st['ops']
            for k, v in st['by_op_status'].items():
                chk.tally('by_op_status', k, v)
                chk._distinct.add(k)
            for k, v in st['by_mv'].items():
                chk.tally('by_microversion', k, v)
            for x in res['violations']:
                chk.violation(x['kind'], x['signature'], x.get('detail', ''), x['replay'])
    if errors:
        raise RuntimeError('worker errors:\n' + errors[0])
    chk.count('histories', n_cases)
    return agg
