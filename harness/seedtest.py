"""Run checks against a seeded mutation without touching /repo:
   python harness/seedtest.py <seed dir with patch.diff> <Cxx> [<Cyy> ...] [--tier quick] [--verify]
Creates a scratch worktree of /repo HEAD, applies the patch, copies /verif (without .git) to /dev/shm,
runs the named checks there with PLACEMENT_REPO pointing at the scratch tree, prints exit codes and
VIOLATION lines, removes both.  --verify additionally runs demo.py with/without the patch and the
pinned suite with it."""
import json
import os
import shutil
import subprocess
import sys
import time


def sh(cmd, **kw):
    return subprocess.run(cmd, shell=True, capture_output=True, text=True, **kw)


def main():
    args = [a for a in sys.argv[1:] if not a.startswith('--')]
    flags = [a for a in sys.argv[1:] if a.startswith('--')]
    seed, props = os.path.abspath(args[0]), args[1:]
    tier = 'thorough' if '--thorough' in flags else 'quick'
    tag = '%d' % os.getpid()
    wt = '/tmp/wt_seed_%s' % tag
    vc = '/dev/shm/v_seed_%s' % tag
    out = {'seed': seed, 'results': {}}
    try:
        r = sh('flock /dev/shm/wt.lock git -C /repo worktree add -q %s HEAD' % wt)
        assert r.returncode == 0, r.stderr
        r = sh('git -C %s apply %s/patch.diff' % (wt, seed))
        if r.returncode != 0:
            print('PATCH DOES NOT APPLY to current HEAD:', r.stderr[:500])
            out['applies'] = False
            return out
        out['applies'] = True
        if '--verify' in flags and os.path.exists(os.path.join(seed, 'demo.py')):
            shutil.copy(os.path.join(seed, 'demo.py'), '/dev/shm/demo_%s.py' % tag)
            for extra in os.listdir(seed):
                if extra.endswith('.py') and extra != 'demo.py':
                    shutil.copy(os.path.join(seed, extra), '/dev/shm/%s' % extra)
            d1 = sh('cd /dev/shm && PYTHONPATH=%s:/dev/shm /venv/bin/python /dev/shm/demo_%s.py' % (wt, tag))
            d0 = sh('cd /dev/shm && PYTHONPATH=/repo:/dev/shm /venv/bin/python /dev/shm/demo_%s.py' % tag)
            out['demo_with_patch'] = (d1.returncode, (d1.stdout + d1.stderr).strip().split('\n')[-1][:200])
            out['demo_without'] = (d0.returncode, (d0.stdout + d0.stderr).strip().split('\n')[-1][:200])
            print('demo with patch:', out['demo_with_patch'], '| without:', out['demo_without'])
            t = sh('cd %s && /venv/bin/python -m pytest -q -p no:cacheprovider --timeout=900 --continue-on-collection-errors 2>&1 | tail -3' % wt)
            out['suite'] = t.stdout.strip().split('\n')[-1]
            print('suite with patch:', out['suite'])
        root = os.path.dirname(os.path.dirname(os.path.abspath(__file__)))
        sh('rsync -a --exclude .git --exclude replays %s/ %s/' % (root, vc))
        for p in props:
            t0 = time.time()
            r = sh('cd %s && PLACEMENT_REPO=%s ./check %s --tier %s' % (vc, wt, p, tier))
            lines = [l for l in r.stdout.split('\n') if l.startswith('VIOLATION') or l.startswith('INFRA')]
            out['results'][p] = {'exit': r.returncode, 'violations': lines, 'wall': round(time.time() - t0)}
            print('%s exit=%s wall=%ss' % (p, r.returncode, round(time.time() - t0)))
            for l in lines[:8]:
                print('   ', l[:200])
            if r.returncode == 2:
                print((r.stdout + r.stderr)[-1500:])
            for a in flags:
                if a.startswith('--keep-replays='):
                    os.makedirs(a.split('=', 1)[1], exist_ok=True)
                    with open(os.path.join(a.split('=', 1)[1], '%s.out' % p), 'w') as fo:
                        fo.write(r.stdout + '\n--- stderr ---\n' + r.stderr[-5000:])
        keep = [a.split('=', 1)[1] for a in flags if a.startswith('--keep-replays=')]
        if keep and os.path.isdir(os.path.join(vc, 'replays')):
            shutil.copytree(os.path.join(vc, 'replays'), keep[0], dirs_exist_ok=True)
        return out
    finally:
        shutil.rmtree(vc, ignore_errors=True)
        sh('git -C /repo worktree remove --force %s' % wt)
        for f in os.listdir('/dev/shm'):
            if f.startswith('demo_%s' % tag):
                os.unlink('/dev/shm/' + f)


if __name__ == '__main__':
    main()
