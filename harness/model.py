"""Client of the compiled Lean model driver (lean/Main.lean), line protocol."""
import json
import os
import struct
import subprocess

from harness import leantool


class Model(object):
    def __init__(self, exe=None):
        self.exe = exe or leantool.driver_path()
        self.p = subprocess.Popen([self.exe], stdin=subprocess.PIPE, stdout=subprocess.PIPE, bufsize=0)

    def send(self, obj):
        self.p.stdin.write((json.dumps(obj) + '\n').encode())
        self.p.stdin.flush()
        line = self.p.stdout.readline()
        if not line:
            raise RuntimeError('model driver died')
        return json.loads(line)

    def reset(self, rcs, traits, project, user):
        r = self.send({'cmd': 'reset', 'rcs': rcs, 'traits': traits, 'cfg': {'project': project, 'user': user}})
        assert r.get('ok'), r

    def dump(self):
        return self.send({'cmd': 'dump'})

    def close(self):
        try:
            self.p.stdin.close()
            self.p.wait(timeout=5)
        except Exception:
            self.p.kill()


def _flt(x):
    if isinstance(x, dict):
        return struct.unpack('<d', struct.pack('<Q', x['bits']))[0]
    return float(x)


def canon_dump(d):
    """Bring a dump (real or model) into one comparable form."""
    out = dict(d)
    d = dict(d)
    d['invs'] = [list(x[:7]) + [_flt(x[7])] for x in d['invs']]
    for k in ('invs', 'allocs', 'rp_traits', 'rp_aggs', 'custom_rcs'):
        out[k] = sorted([list(x) for x in d[k]], key=lambda x: json.dumps(x))
    for k in ('aggs', 'custom_traits', 'projects', 'users', 'ctypes'):
        out[k] = sorted(d[k])
    return out


def diff_dumps(real, model, keys=None):
    a, b = canon_dump(real), canon_dump(model)
    diffs = []
    for k in (keys or sorted(a)):
        if a.get(k) != b.get(k):
            diffs.append({'table': k, 'real': a.get(k), 'model': b.get(k)})
    return diffs


def load_dump(model, dump):
    """install a canonical dump of the real database into the model (after model.reset)"""
    r = model.send({'cmd': 'load', 'dump': dump})
    assert r.get('ok'), r
