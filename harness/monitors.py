"""Property monitors: each evaluates the property text directly on the REAL implementation's
responses and tables (independent of the Lean model).  A monitor takes a Record and returns a list
of (signature, detail) pairs; an empty list means the property held on this step."""
import math

from harness.app import core, AUX_KEYS

ALLOC_WRITES = ('alloc_put', 'alloc_post', 'reshape')
INV_OPS = ('inv_set', 'inv_add', 'inv_update', 'inv_delete', 'inv_delete_all')


class Record(object):
    __slots__ = ('op', 'resp', 'before', 'after', 'index')

    def __init__(self, op, resp, before, after, index):
        self.op, self.resp, self.before, self.after, self.index = op, resp, before, after, index


def inv_map(d):
    return {(r[0], r[1]): r for r in d['invs']}


def usage_map(d):
    u = {}
    for (rp, c, rc, used) in d['allocs']:
        u[(rp, rc)] = u.get((rp, rc), 0) + used
    return u


def capacity(row):
    # (total - reserved) * allocation_ratio as the service computes it (IEEE double product)
    return (row[2] - row[3]) * row[7]


def over_committed(d):
    im, um = inv_map(d), usage_map(d)
    return {k for k, used in um.items() if k in im and capacity(im[k]) < used}


def consumers_of(op):
    o = op['op']
    if o == 'alloc_put':
        return [op['c']]
    if o in ('alloc_post', 'reshape'):
        return op['cs']
    return []


def inv_targets(op):
    """providers whose inventory this request changes directly"""
    o = op['op']
    if o in INV_OPS:
        return {op['uuid']}
    if o == 'reshape':
        return {r['uuid'] for r in op['invs']}
    return set()


# --------------------------------------------------------------------------- C01
def c01(rec):
    out = []
    op, ok = rec.op, 200 <= rec.resp.status < 300
    im, um = inv_map(rec.after), usage_map(rec.after)
    if op['op'] in ALLOC_WRITES and ok:
        for c in consumers_of(op):
            for (rp, rc, n) in c['allocs']:
                if n <= 0:
                    continue
                k = (rp, rc)
                if k not in im:
                    out.append(('c01:no-inventory:%s' % op['op'], 'accepted write places %s on %s/%s without inventory' % (n, rp, rc)))
                    continue
                row = im[k]
                if n < row[4] or n > row[5] or n % row[6] != 0:
                    out.append(('c01:unit:%s' % op['op'], 'amount %s violates min/max/step %s of %s' % (n, row[4:7], k)))
                if capacity(row) < um.get(k, 0):
                    out.append(('c01:capacity:%s' % op['op'], 'usage %s exceeds capacity %r on %s after accepted write' % (um.get(k), capacity(row), k)))
    # usage on a (provider, class) that has no inventory is usage above a capacity of nothing: whatever request left it
    # behind (e.g. a reshape that drops a class other consumers hold)
    imb = inv_map(rec.before)
    for (rp, c, rc, used) in rec.after['allocs']:
        if (rp, rc) not in im and ((rp, rc) in imb or [rp, c, rc, used] not in [list(x) for x in rec.before['allocs']]):
            out.append(('c01:usage-without-inventory:%s' % op['op'], '%s holds %s of %s on %s, which has no such inventory after the request (status %s)'
                        % (c, used, rc, rp, rec.resp.status)))
    ob, oa = over_committed(rec.before), over_committed(rec.after)
    ub = usage_map(rec.before)
    targets = inv_targets(op)
    for k in oa - ob:
        if not (ok and k[0] in targets):
            out.append(('c01:overcommit-by:%s' % op['op'], '%s became over-committed by a request that is not an inventory change of it' % (k,)))
    for k in oa & ob:
        if k[0] not in targets and um.get(k, 0) > ub.get(k, 0):
            out.append(('c01:overcommitted-usage-grew:%s' % op['op'], '%s usage %s -> %s while over-committed' % (k, ub.get(k), um.get(k))))
    return out


# --------------------------------------------------------------------------- C04
def unknown_provider_named(rec):
    names = set()
    for c in consumers_of(rec.op):
        for (rp, rc, n) in c['allocs']:
            names.add(rp)
    return any(rp not in rec.before['rps'] for rp in names)


def c04(rec):
    out = []
    if rec.resp.status >= 400:
        a, b = core(rec.before), core(rec.after)
        if a != b:
            tables = sorted(k for k in a if a[k] != b[k])
            sig = 'c04:%s:%s:%s' % (rec.op['op'], rec.resp.status, '+'.join(tables))
            if tables == ['consumers'] and rec.op['op'] in ALLOC_WRITES and rec.resp.status == 400 and unknown_provider_named(rec):
                new = set(b['consumers']) - set(a['consumers'])
                if new and new <= {c['uuid'] for c in consumers_of(rec.op)} and all(a['consumers'][k] == b['consumers'][k] for k in a['consumers']):
                    sig = 'c04:alloc-write-unknown-provider-leaves-consumer'
            out.append((sig, 'rejected request changed tables %s' % tables))
    return out


# --------------------------------------------------------------------------- C08
def c08(rec):
    out = []
    d = rec.after
    im = inv_map(d)
    rps, cons = d['rps'], d['consumers']
    for (rp, c, rc, used) in d['allocs']:
        if rp not in rps:
            out.append(('c08:alloc-without-provider', 'allocation %s' % ([rp, c, rc, used],)))
        elif (rp, rc) not in im:
            out.append(('c08:alloc-without-inventory:%s' % rec.op['op'], 'allocation %s' % ([rp, c, rc, used],)))
        if c not in cons:
            out.append(('c08:alloc-without-consumer:%s' % rec.op['op'], 'allocation %s' % ([rp, c, rc, used],)))
    for r in d['invs']:
        if r[0] not in rps:
            out.append(('c08:inventory-without-provider', str(r)))
        if str(r[1]).startswith('?'):
            out.append(('c08:inventory-without-class:%s' % rec.op['op'], str(r)))
    for (rp, t) in d['rp_traits']:
        if rp not in rps or str(t).startswith('?'):
            out.append(('c08:dangling-trait-association:%s' % rec.op['op'], str((rp, t))))
    for (rp, a) in d['rp_aggs']:
        if rp not in rps or str(a).startswith('?'):
            out.append(('c08:dangling-aggregate-association:%s' % rec.op['op'], str((rp, a))))
    for u, c in cons.items():
        if str(c['project']).startswith('?') or str(c['user']).startswith('?') or str(c['ctype'] or '').startswith('?'):
            out.append(('c08:consumer-dangling-attr', '%s %s' % (u, c)))
    # refusals
    op, st, b = rec.op, rec.resp.status, rec.before
    o = op['op']
    if o == 'rp_delete' and op['uuid'] in b['rps']:
        u = op['uuid']
        in_use = any(a[0] == u for a in b['allocs'])
        parent = any(r['parent'] == u for r in b['rps'].values())
        if (in_use or parent) and st != 409:
            out.append(('c08:delete-provider-in-use-not-refused', 'status %s' % st))
        if not in_use and not parent and st != 204:
            out.append(('c08:delete-free-provider-refused', 'status %s' % st))
        if st == 204 and (any(r[0] == u for r in d['invs']) or any(x[0] == u for x in d['rp_traits'])
                          or any(x[0] == u for x in d['rp_aggs'])):
            out.append(('c08:delete-provider-no-cascade', ''))
    if o == 'inv_delete' and any(a[0] == op['uuid'] and a[2] == op['rc'] for a in b['allocs']) and st != 409:
        out.append(('c08:delete-inventory-in-use-not-refused', 'status %s' % st))
    if o == 'inv_delete_all' and op.get('mv', 39) >= 5 and any(a[0] == op['uuid'] for a in b['allocs']) and st != 409:
        out.append(('c08:delete-inventories-in-use-not-refused', 'status %s' % st))
    if o == 'rc_delete':
        if not op['name'].startswith('CUSTOM_'):
            if st != 400 and st != 404:
                out.append(('c08:delete-standard-class-not-400', 'status %s' % st))
        elif any(r[1] == op['name'] for r in b['invs']) and st != 409:
            out.append(('c08:delete-class-with-inventory-not-refused', 'status %s' % st))
    if o == 'trait_delete':
        if not op['name'].startswith('CUSTOM_'):
            if st not in (400, 404):
                out.append(('c08:delete-standard-trait-not-400', 'status %s' % st))
        elif any(x[1] == op['name'] for x in b['rp_traits']) and st != 409:
            out.append(('c08:delete-trait-in-use-not-refused', 'status %s' % st))
    return out


# --------------------------------------------------------------------------- C09
def forest_errors(rps):
    errs = []
    for u, r in rps.items():
        seen = [u]
        cur = u
        ok = True
        while rps[cur]['parent'] is not None:
            p = rps[cur]['parent']
            if p not in rps:
                errs.append('parent %s of %s does not exist' % (p, cur))
                ok = False
                break
            if p in seen:
                errs.append('%s is its own ancestor' % p)
                ok = False
                break
            seen.append(p)
            cur = p
        if ok and r['root'] != cur:
            errs.append('root of %s is %s, top of chain is %s' % (u, r['root'], cur))
    return errs


def descendants(rps, u):
    out, todo = set(), [u]
    while todo:
        x = todo.pop()
        for k, r in rps.items():
            if r['parent'] == x and k not in out:
                out.add(k)
                todo.append(k)
    return out


def c09(rec):
    out = []
    for e in forest_errors(rec.after['rps']):
        out.append(('c09:forest:%s' % rec.op['op'], e))
    op, st, b = rec.op, rec.resp.status, rec.before['rps']
    o, mv = op['op'], op.get('mv', 39)
    if o == 'rp_create' and op['uuid'] not in b:
        p = op.get('parent')
        if p is not None and mv >= 14 and (p not in b) and st != 400:
            out.append(('c09:create-missing-parent-not-400', 'status %s' % st))
    if o == 'rp_update' and op['uuid'] in b and op.get('has_parent') and mv >= 14:
        me, p = b[op['uuid']], op.get('parent')
        must_reject = None
        if p is not None:
            if p not in b:
                must_reject = 'missing parent'
            elif p == op['uuid'] or p in descendants(b, op['uuid']):
                must_reject = 'loop'
            elif me['parent'] is not None and me['parent'] != p and mv < 37:
                must_reject = 're-parent before 1.37'
        elif me['parent'] is not None and mv < 37:
            must_reject = 'un-parent before 1.37'
        if must_reject and st != 400:
            out.append(('c09:update-not-rejected:%s' % must_reject.replace(' ', '-'), 'status %s' % st))
        if not must_reject and st == 400:
            out.append(('c09:legal-update-rejected', 'parent %s -> %s at 1.%s' % (me['parent'], p, mv)))
    if o == 'rp_delete' and op['uuid'] in b and any(r['parent'] == op['uuid'] for r in b.values()) and st != 409:
        out.append(('c09:delete-with-children-not-409', 'status %s' % st))
    return out


# --------------------------------------------------------------------------- C10
def c10(rec):
    out = []
    op, st = rec.op, rec.resp.status
    ok = 200 <= st < 300
    b, a = rec.before, rec.after
    o, mv = op['op'], op.get('mv', 39)
    for u, r in b['rps'].items():
        if u in a['rps'] and a['rps'][u]['gen'] < r['gen']:
            out.append(('c10:provider-generation-decreased:%s' % o, '%s %s -> %s' % (u, r['gen'], a['rps'][u]['gen'])))
    for u, c in b['consumers'].items():
        if u in a['consumers'] and a['consumers'][u]['gen'] < c['gen']:
            out.append(('c10:consumer-generation-decreased:%s' % o, '%s' % u))
    if not ok:
        for u, r in b['rps'].items():
            if u in a['rps'] and a['rps'][u]['gen'] != r['gen']:
                out.append(('c10:error-changed-provider-generation:%s' % o, '%s %s -> %s (status %s)' % (u, r['gen'], a['rps'][u]['gen'], st)))
        for u, c in b['consumers'].items():
            if u in a['consumers'] and a['consumers'][u]['gen'] != c['gen']:
                out.append(('c10:error-changed-consumer-generation:%s' % o, '%s (status %s)' % (u, st)))
        return out

    def bumped(u):
        return u in b['rps'] and u in a['rps'] and a['rps'][u]['gen'] > b['rps'][u]['gen']

    def table(d, key, u):
        return sorted(x for x in d[key] if x[0] == u)

    if o in INV_OPS:
        u = op['uuid']
        if table(b, 'invs', u) != table(a, 'invs', u) and not bumped(u):
            out.append(('c10:inventory-change-without-generation:%s' % o, u))
    if o == 'rp_traits_set' or o == 'rp_traits_delete':
        u = op['uuid']
        if table(b, 'rp_traits', u) != table(a, 'rp_traits', u) and not bumped(u):
            out.append(('c10:trait-change-without-generation:%s' % o, u))
    if o == 'aggs_set' and mv >= 19:
        u = op['uuid']
        if table(b, 'rp_aggs', u) != table(a, 'rp_aggs', u) and not bumped(u):
            out.append(('c10:aggregate-change-without-generation', u))
    if o in ALLOC_WRITES:
        for c in consumers_of(op):
            for (rp, rc, n) in c['allocs']:
                if n > 0 and not bumped(rp):
                    out.append(('c10:allocation-write-without-provider-generation:%s' % o, rp))
            u = c['uuid']
            if u in a['consumers']:
                old = b['consumers'].get(u, {}).get('gen', -1)
                had = any(x[1] == u for x in b['allocs'])
                has = any(x[1] == u for x in a['allocs'])
                if (had or has) and not a['consumers'][u]['gen'] > old:
                    out.append(('c10:allocation-write-without-consumer-generation:%s' % o, u))
        if o == 'reshape':
            for r in op['invs']:
                u = r['uuid']
                if table(b, 'invs', u) != table(a, 'invs', u) and not bumped(u):
                    out.append(('c10:reshape-inventory-change-without-generation', u))
    # generation returned by the write equals the one subsequently read
    j = rec.resp.json
    if isinstance(j, dict) and 'resource_provider_generation' in j and op.get('uuid') in a['rps']:
        if j['resource_provider_generation'] != a['rps'][op['uuid']]['gen']:
            out.append(('c10:returned-generation-differs:%s' % o, '%s vs stored %s' % (j['resource_provider_generation'], a['rps'][op['uuid']]['gen'])))
    if isinstance(j, dict) and 'generation' in j and 'uuid' in j and j['uuid'] in a['rps']:
        if j['generation'] != a['rps'][j['uuid']]['gen']:
            out.append(('c10:returned-generation-differs:%s' % o, ''))
    # ... through EVERY route that reports a provider generation (the listing builds its rows with a query of its own)
    changed = [u for u, r in a['rps'].items() if r['gen'] != b['rps'].get(u, {}).get('gen')]
    if changed:
        from harness.app import App
        app = App._instance
        if app is not None:
            lst = app.call('GET', '/resource_providers', version='1.39')
            if lst.status == 200:
                for row in lst.json['resource_providers']:
                    if row['uuid'] in a['rps'] and row['generation'] != a['rps'][row['uuid']]['gen']:
                        out.append(('c10:listed-generation-differs:%s' % o, '%s listed with generation %s, stored %s'
                                    % (row['uuid'], row['generation'], a['rps'][row['uuid']]['gen'])))
            u = changed[0]
            for path, key in (('/resource_providers/%s' % u, 'generation'),
                              ('/resource_providers/%s/inventories' % u, 'resource_provider_generation'),
                              ('/resource_providers/%s/traits' % u, 'resource_provider_generation'),
                              ('/resource_providers/%s/aggregates' % u, 'resource_provider_generation')):
                r = app.call('GET', path, version='1.39')
                if r.status == 200 and r.json.get(key) != a['rps'][u]['gen']:
                    out.append(('c10:read-generation-differs:%s' % path.rsplit('/', 1)[-1 if path.count('/') > 2 else 0], '%s reports %s, stored %s'
                                % (path, r.json.get(key), a['rps'][u]['gen'])))
    return out


# --------------------------------------------------------------------------- C12
def c12(rec, cfg_project=None, cfg_user=None):
    if cfg_project is None or cfg_user is None:
        # the placeholders the service under test is configured with (harness/app.py sets two distinct values)
        from harness.app import App
        conf = App._instance.conf if App._instance is not None else None
        cfg_project = cfg_project or (conf.placement.incomplete_consumer_project_id if conf else '00000000-0000-0000-0000-000000000000')
        cfg_user = cfg_user or (conf.placement.incomplete_consumer_user_id if conf else '00000000-0000-0000-0000-000000000000')
    out = []
    a, b = rec.after, rec.before
    op, st = rec.op, rec.resp.status
    ok = 200 <= st < 300
    holders = {x[1] for x in a['allocs']}
    cons = set(a['consumers'])
    for u in cons - holders:
        sig = 'c12:consumer-without-allocations:%s:%s' % (op['op'], st)
        reqs = {c['uuid']: c for c in consumers_of(op)}
        if u in reqs and u not in b['consumers']:
            if ok and not reqs[u]['allocs']:
                sig = 'c12:empty-entry-for-new-consumer-leaves-consumer'
            elif st == 400 and unknown_provider_named(rec):
                sig = 'c12:alloc-write-unknown-provider-leaves-consumer'
        elif u in b['consumers'] and u not in {x[1] for x in b['allocs']}:
            continue   # inherited from an earlier step (reported there)
        out.append((sig, 'consumer %s has no allocations after the request' % u))
    for u in holders - cons:
        out.append(('c12:allocations-without-consumer:%s' % op['op'], u))
    if ok and op['op'] in ALLOC_WRITES:
        mv = op.get('mv', 39)
        for c in consumers_of(op):
            u = c['uuid']
            if u in a['consumers'] and c['allocs']:
                row = a['consumers'][u]
                want_p = c['project'] if c['project'] is not None else cfg_project
                want_u = c['user'] if c['project'] is not None else cfg_user
                if row['project'] != want_p or row['user'] != want_u:
                    out.append(('c12:project-user-not-recorded:%s' % op['op'], '%s: %s, wanted %s/%s' % (u, row, want_p, want_u)))
                if mv >= 38 and row['ctype'] != c['ctype']:
                    out.append(('c12:consumer-type-not-recorded:%s' % op['op'], '%s: %s, wanted %s' % (u, row, c['ctype'])))
    return out


MONITORS = {'C01': c01, 'C04': c04, 'C08': c08, 'C09': c09, 'C10': c10, 'C12': c12}
