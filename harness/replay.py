"""./check replay <file>: re-run a replay file against the real code (and the model where the
replay is a correspondence disagreement). Exit 1 when the violation reproduces, 0 otherwise."""
import json
import sys


def main(path):
    with open(path) as f:
        doc = json.load(f)
    rp = doc.get('replay') or {}
    t = rp.get('type')
    print('property %s, kind %s, signature %s' % (doc.get('property'), doc.get('kind'), doc.get('signature')))
    if t == 'history':
        from harness import hist
        use_model = doc.get('kind') == 'correspondence'
        hist._init(use_model)
        vio = hist.run_ops(rp['ops'], rp.get('monitors', []), use_model=use_model, stop_at_first=False)
        hit = [v for v in vio if v['signature'] == doc.get('signature')]
        for v in vio:
            print('  step %s: %s  %s' % (v['index'], v['signature'], v['detail']))
        print('REPRODUCED' if hit else 'not reproduced')
        return 1 if hit else 0
    mod = rp.get('module')
    if mod:
        import importlib
        m = importlib.import_module(mod)
        return m.replay(doc)
    print('replay type %r has no automatic re-run; see the file for the request sequence' % t)
    return 0
