"""Install a canonical dump (harness/app.py `dump()`) into the real database by SQL, so that a replay
file carries its own start state."""
import datetime


def load_into_app(app, dump):
    app.reset()
    q = app.sql
    now = datetime.datetime.utcnow().isoformat(sep=' ')
    for name, rid in dump.get('custom_rcs', []):
        q('insert into resource_classes (id, name, created_at) values (?, ?, ?)', (rid, name, now))
    for t in dump.get('custom_traits', []):
        q('insert into traits (name, created_at) values (?, ?)', (t, now))
    rc_id = {n: i for i, n in q('select id, name from resource_classes')}
    trait_id = {n: i for i, n in q('select id, name from traits')}
    ids = {}
    for n, (u, r) in enumerate(dump['rps'].items(), 1):
        ids[u] = n
    for u, r in dump['rps'].items():
        q('insert into resource_providers (id, uuid, name, generation, created_at) values (?, ?, ?, ?, ?)',
          (ids[u], u, r['name'], r['gen'], now))
    for u, r in dump['rps'].items():
        q('update resource_providers set root_provider_id = ?, parent_provider_id = ? where id = ?',
          (ids.get(r['root']), ids.get(r['parent']) if r['parent'] else None, ids[u]))
    for (rp, rc, total, reserved, mi, ma, st, ratio) in dump['invs']:
        q('insert into inventories (resource_provider_id, resource_class_id, total, reserved, min_unit, max_unit, step_size, '
          'allocation_ratio, created_at) values (?, ?, ?, ?, ?, ?, ?, ?, ?)', (ids[rp], rc_id[rc], total, reserved, mi, ma, st, ratio, now))
    for p in dump.get('projects', []):
        q('insert into projects (external_id, created_at) values (?, ?)', (p, now))
    for u in dump.get('users', []):
        q('insert into users (external_id, created_at) values (?, ?)', (u, now))
    for t in dump.get('ctypes', []):
        q('insert into consumer_types (name, created_at) values (?, ?)', (t, now))
    pid = {e: i for i, e in q('select id, external_id from projects')}
    uid = {e: i for i, e in q('select id, external_id from users')}
    tid = {e: i for i, e in q('select id, name from consumer_types')}
    for u, c in dump['consumers'].items():
        q('insert into consumers (uuid, project_id, user_id, generation, consumer_type_id, created_at) values (?, ?, ?, ?, ?, ?)',
          (u, pid[c['project']], uid[c['user']], c['gen'], tid.get(c['ctype']) if c['ctype'] else None, now))
    for (rp, c, rc, used) in dump['allocs']:
        q('insert into allocations (resource_provider_id, consumer_id, resource_class_id, used, created_at) values (?, ?, ?, ?, ?)',
          (ids[rp], c, rc_id[rc], used, now))
    for a in dump.get('aggs', []):
        q('insert into placement_aggregates (uuid, created_at) values (?, ?)', (a, now))
    agg_id = {u: i for i, u in q('select id, uuid from placement_aggregates')}
    for (rp, a) in dump['rp_aggs']:
        q('insert into resource_provider_aggregates (resource_provider_id, aggregate_id, created_at) values (?, ?, ?)', (ids[rp], agg_id[a], now))
    for (rp, t) in dump['rp_traits']:
        q('insert into resource_provider_traits (resource_provider_id, trait_id, created_at) values (?, ?, ?)', (ids[rp], trait_id[t], now))
