"""Statement-level fault and crash injection on the real application (no hook in /repo):
a SQLAlchemy `before_cursor_execute` listener numbers the statements of a request (oslo.db emits
real BEGINs on SQLite) and a `commit` listener numbers the commits; at event k it raises
  * oslo_db.exception.DBDeadlock      (retryable; with or without the database having rolled the
                                       transaction back - the listener issues ROLLBACK first, as InnoDB does)
  * oslo_db.exception.DBDuplicateEntry
  * oslo_db.exception.DBError         (generic, non-retryable)
  * Crash (a BaseException)           process death: nothing in the request's `except Exception`
                                       clean-up runs; the database rolls back the transaction in flight."""
import time

import sqlalchemy
from oslo_db import exception as db_exc


class Crash(BaseException):
    pass


class Injector(object):
    def __init__(self, app):
        self.app = app
        self.events = []          # ('stmt', verb, table) | ('commit',) | ('rollback',)
        self.armed = None         # (event index, kind)
        self.crash_mode = False
        self._begin_modes = []
        self._mode_base = 0
        self.fired_in_txn = None
        self.fired = False
        self.txn_log = []         # per committed transaction: list of (verb, table)
        self._cur = []
        sqlalchemy.event.listen(app.engine, 'before_cursor_execute', self._stmt)
        sqlalchemy.event.listen(app.engine, 'commit', self._commit)
        sqlalchemy.event.listen(app.engine, 'rollback', self._rollback)
        self._sleep = time.sleep
        time.sleep = lambda s: None     # wrap_db_retry sleeps between attempts

    def close(self):
        time.sleep = self._sleep
        sqlalchemy.event.remove(self.app.engine, 'before_cursor_execute', self._stmt)
        sqlalchemy.event.remove(self.app.engine, 'commit', self._commit)
        sqlalchemy.event.remove(self.app.engine, 'rollback', self._rollback)

    def reset(self, armed=None):
        from harness import sched
        self.events, self.armed, self.fired, self.txn_log, self._cur = [], armed, False, [], []
        self.crash_mode = bool(armed and armed[1] == 'crash')
        self._mode_base = len(sched.MODES)
        self._begin_modes = []
        self.fired_in_txn = None

    def _modes_effective(self):
        return self._begin_modes

    def _fire(self, conn, kind):
        self.fired = True
        self.fired_in_txn = len(self.txn_log)      # index of the transaction in flight
        if kind == 'crash':
            raise Crash()
        if kind == 'deadlock':
            raise db_exc.DBDeadlock()
        if kind == 'deadlock_rb':
            # the server has already rolled the transaction back (MySQL deadlock victim)
            # (as with MySQL under autocommit=0 a new transaction starts implicitly with the next
            # statement; oslo.db drives SQLite with explicit BEGINs, so one is issued here)
            try:
                raw = conn.connection.dbapi_connection
                raw.rollback()
                raw.execute('BEGIN')
            except Exception:
                pass
            raise db_exc.DBDeadlock()
        if kind == 'duplicate':
            raise db_exc.DBDuplicateEntry(columns=['uuid'])
        if kind == 'dberror':
            raise db_exc.DBError('injected failure')
        raise ValueError(kind)

    def _stmt(self, conn, cursor, statement, parameters, context, executemany):
        w = statement.split()
        verb = w[0].upper() if w else ''
        table = ''
        if verb == 'SELECT' and 'FROM' in w:
            table = w[w.index('FROM') + 1]
        elif verb in ('INSERT', 'DELETE') and len(w) > 2:
            table = w[2]
        elif verb == 'UPDATE' and len(w) > 1:
            table = w[1]
        idx = len(self.events)
        if verb == 'BEGIN':
            from harness import sched
            self._begin_modes.append(sched.MODES[-1] if sched.MODES else '?')
        self.events.append(('stmt', verb, table.strip('"(),')))
        if verb not in ('BEGIN', 'PRAGMA', 'SAVEPOINT', 'RELEASE', 'ROLLBACK', 'COMMIT'):
            self._cur.append((verb, table.strip('"(),')))
        if self.armed and not self.fired and self.armed[0] == idx:
            self._fire(conn, self.armed[1])

    def _commit(self, conn):
        idx = len(self.events)
        self.events.append(('commit',))
        if self.armed and not self.fired and self.armed[0] == idx:
            if self.armed[1] == 'crash':
                self.fired = True
                self.fired_in_txn = len(self.txn_log)
                raise Crash()
        self.txn_log.append((self._cur, 'commit'))
        self._cur = []

    def _rollback(self, conn):
        self.events.append(('rollback',))
        self.txn_log.append((self._cur, 'rollback'))
        self._cur = []

    def completed_writers(self):
        """number of completed (committed or rolled back) transactions opened in writer mode (each issued a
        BEGIN, i.e. at least one statement); needs harness.sched installed (it records the modes)"""
        crashed = self.fired_in_txn if (self.armed and self.armed[1] == 'crash') or self.fired_in_txn is not None else None
        return sum(1 for i, ((_, _how), m) in enumerate(zip(self.txn_log, self._begin_modes))
                   if m == 'w' and not (self.crash_mode and i == self.fired_in_txn))


class FailAt(object):
    """context manager: the n-th statement sent to the engine (counted from 0, BEGIN included) raises `exc`"""

    def __init__(self, engine, n, exc=None):
        self.engine, self.n, self.k, self.fired = engine, n, 0, False
        self.exc = exc or db_exc.DBConnectionError('injected: connection lost')

    def _stmt(self, conn, cursor, statement, parameters, context, executemany):
        k = self.k
        self.k += 1
        if k == self.n and not self.fired:
            self.fired = True
            raise self.exc

    def __enter__(self):
        sqlalchemy.event.listen(self.engine, 'before_cursor_execute', self._stmt)
        return self

    def __exit__(self, *a):
        sqlalchemy.event.remove(self.engine, 'before_cursor_execute', self._stmt)
        return False
