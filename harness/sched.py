"""Deterministic scheduler at database-transaction granularity (no hook in /repo).

Each request runs in a greenlet; oslo.db's `_TransactionContext._session` is wrapped so that a
request yields to the scheduler right BEFORE every outermost transaction it opens.  A schedule is
a list of request indices: the named request runs until it is about to open its next outermost
transaction (or finishes).  The database is a file on /dev/shm so that `reader.independent`
scopes and concurrent requests use separate connections and see committed state only."""
import contextlib
import os
import shutil
import sqlite3
import tempfile

import greenlet
from oslo_db.sqlalchemy import enginefacade as ef

from harness import app as app_mod

_main = None
_orig = None
STMTS = []       # statements of the transaction in flight: (verb, table)
MODES = []       # mode ('r' | 'w') of every outermost transaction opened, in order
INSERTED = []    # (table, rowid) of every INSERT into consumers / resource_providers (row-id reuse detection)
INSERT_BY = []   # (table, index of the request) of every such INSERT that SUCCEEDED


def install():
    global _main, _orig
    if _orig is not None:
        return
    _main = greenlet.getcurrent()
    _orig = ef._TransactionContext._session

    @contextlib.contextmanager
    def patched(self, savepoint=False, context=None):
        outer = self.session is None
        g = greenlet.getcurrent()
        scheduled = g is not _main and getattr(g, 'sched_index', None) is not None
        if outer:
            MODES.append('w' if self.mode is ef._WRITER else 'r')
        # `reader.independent` inside a transaction in flight (replace_all's retry) is part of that
        # transaction's step: never yield while this request holds an open transaction
        if outer and scheduled and not getattr(g, 'in_txn', 0):
            mode = 'w' if self.mode is ef._WRITER else ('a' if self.mode is ef._ASYNC_READER else 'r')
            _main.switch(('txn', mode))
        if scheduled:
            g.in_txn = getattr(g, 'in_txn', 0) + 1
        try:
            with _orig(self, savepoint=savepoint, context=context) as s:
                yield s
        finally:
            if scheduled:
                g.in_txn -= 1
    ef._TransactionContext._session = patched


def _stmt_hook(conn, cursor, statement, parameters, context, executemany):
    w = statement.split()
    verb = w[0].upper() if w else ''
    table = ''
    if verb == 'SELECT' and 'FROM' in w:
        table = w[w.index('FROM') + 1]
    elif verb in ('INSERT', 'DELETE') and len(w) > 2:
        table = w[2]
    elif verb == 'UPDATE' and len(w) > 1:
        table = w[1]
    STMTS.append((verb, table.strip('"(),')))


def _after_hook(conn, cursor, statement, parameters, context, executemany):
    if statement.startswith('INSERT INTO consumers') or statement.startswith('INSERT INTO resource_providers'):
        INSERTED.append((statement.split()[2], cursor.lastrowid))
        INSERT_BY.append((statement.split()[2], getattr(greenlet.getcurrent(), 'sched_index', None)))


def rowid_reused():
    """SQLite hands out max(rowid)+1, so the id of a deleted most-recent row is given to the next insert;
    MySQL/PostgreSQL sequences (and the model) never reuse ids.  Runs in which that happened are outside
    the modelled behaviour and are skipped by the concurrency checks (counted in the evidence)."""
    return len(set(INSERTED)) != len(INSERTED)


class SchedApp(app_mod.App):
    """App on a file database; snapshot/restore through the SQLite backup API."""

    def __init__(self, overrides=None):
        self.dir = tempfile.mkdtemp(prefix='verif_sched_', dir='/dev/shm')
        install()
        super(SchedApp, self).__init__(dburl='sqlite:///%s/p.db' % self.dir, overrides=overrides)
        import sqlalchemy
        sqlalchemy.event.listen(self.engine, 'before_cursor_execute', _stmt_hook)
        sqlalchemy.event.listen(self.engine, 'after_cursor_execute', _after_hook)

    def snapshot(self):
        mem = sqlite3.connect(':memory:')
        rc = self.engine.raw_connection()
        try:
            con = rc.driver_connection
            con.commit()
            con.backup(mem)
        finally:
            rc.close()
        return mem

    def restore(self, snap):
        rc = self.engine.raw_connection()
        try:
            con = rc.driver_connection
            try:
                con.rollback()
            except Exception:
                pass
            snap.backup(con)
            con.commit()
        finally:
            rc.close()

    def close(self):
        try:
            self.engine.dispose()
        finally:
            shutil.rmtree(self.dir, ignore_errors=True)

    # ------------------------------------------------------------------
    def run_schedule(self, reqs, schedule):
        """reqs: list of callables () -> Resp.  A schedule step `i` lets request i perform its next
        EFFECTIVE transaction (one that issues at least one SQL statement; oslo.db scopes that touch
        nothing - e.g. the @reader on `_from_db_object` - commute with everything and are glued to
        it) and run on until it is about to open the following one.  Returns (responses, trace);
        trace = [(request index, mode, [(verb, table), ...])] in execution order."""
        res = [None] * len(reqs)

        def mk(i, r):
            def body():
                res[i] = r()
                return ('done', None)
            g = greenlet.greenlet(body)
            g.sched_index = i
            g.pending = None
            g.started = False
            return g
        gs = [mk(i, r) for i, r in enumerate(reqs)]
        alive = set(range(len(reqs)))
        trace = []
        it = iter(schedule)
        while alive:
            try:
                i = next(it)
            except StopIteration:
                i = min(alive)
            if i not in alive:
                continue
            g = gs[i]
            if not g.started:
                # run the prologue (no database access) up to the first transaction
                g.started = True
                out = g.switch()
                if g.dead:
                    alive.discard(i)
                    trace.append((i, 'end', []))
                    continue
                g.pending = out[1]
            while True:
                del STMTS[:]
                mode = g.pending
                out = g.switch()
                stmts = [x for x in STMTS if x[0] not in ('BEGIN', 'COMMIT', 'ROLLBACK', 'SAVEPOINT', 'RELEASE', 'PRAGMA')]
                if g.dead:
                    alive.discard(i)
                    trace.append((i, mode, stmts))
                    trace.append((i, 'end', []))
                    break
                g.pending = out[1]
                if stmts:
                    trace.append((i, mode, stmts))
                    break
        return res, trace
