#!/bin/bash
# Run every seeded change of seeded/ against the quick check of its own property (3 at a time) and rebuild
# seeded/MATRIX.md.  Usage: harness/seedall.sh [logdir]     (needs lean/.lake: run ./setup.sh first)
cd "$(dirname "$0")/.."
ROOT="$PWD"
LOGS="${1:-/dev/shm/seedall_logs}"
mkdir -p "$LOGS"
run() { d=$1; p=${d%%-*}; sleep $((RANDOM % 6)); /venv/bin/python "$ROOT/harness/seedtest.py" "$ROOT/seeded/$d" $p > "$LOGS/re_$d.log" 2>&1; echo "done $d: $(grep 'exit=' "$LOGS/re_$d.log" | tr '\n' ' ')"; }
export -f run; export ROOT LOGS
ls "$ROOT/seeded" | grep '^C[0-9][0-9]-' | xargs -P ${SEEDALL_PAR:-3} -I{} bash -c 'run {}'
/venv/bin/python "$ROOT/harness/seedmatrix.py" "$LOGS"
