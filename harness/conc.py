"""Concurrency exploration (C05, C06, C07): all interleavings, at database-transaction granularity,
of two or three requests on the real application (harness/sched.py), each compared with the Lean
model's scheduled semantics (`Prog.runSched` through the driver command `sched`) and judged by
monitors that evaluate the properties on the real outcomes (incl. the serial-permutation oracle)."""
from harness import ppool
import itertools
import json
import multiprocessing as mp
import os
import random
import traceback

import os_resource_classes as orc
import os_traits

from harness import gen, ops
from harness.app import core
from harness.model import Model, diff_dumps, load_dump

_APP = None
_MODEL = None

GUARDED = ('inv_set', 'inv_update', 'rp_traits_set', 'reshape')      # + aggs_set from 1.19
SCOPE = ('inv_set', 'inv_add', 'inv_update', 'inv_delete', 'inv_delete_all', 'rp_traits_set', 'rp_traits_delete',
         'aggs_set', 'alloc_put', 'alloc_post', 'reshape')


def _init():
    global _APP, _MODEL
    from harness.sched import SchedApp
    import atexit
    _APP = SchedApp()
    atexit.register(_APP.close)
    # pool workers leave through os._exit: only multiprocessing's own finalizers run there
    from multiprocessing import util as _mpu
    _mpu.Finalize(None, _APP.close, exitpriority=10)
    _MODEL = Model()


def classify(mode, stmts):
    t = {(v, tb) for v, tb in stmts}
    tables = {tb for _, tb in stmts}
    if mode == 'r':
        if tables <= {'resource_classes'}:
            return 'rcCache'
        for tb, lbl in (('projects', 'getProject'), ('users', 'getUser'), ('consumer_types', 'getCtype'),
                        ('consumers', 'getConsumer'), ('allocations', 'getAllocs'),
                        ('resource_providers', 'getRp'), ('traits', 'getTraits')):
            if tb in tables:
                return lbl
        return 'read:' + ','.join(sorted(tables))
    ins = {tb for v, tb in t if v == 'INSERT'}
    dele = {tb for v, tb in t if v == 'DELETE'}
    upd = {tb for v, tb in t if v == 'UPDATE'}
    if ins == {'projects'}:
        return 'createProject'
    if ins == {'users'}:
        return 'createUser'
    if ins == {'consumer_types'}:
        return 'createCtype'
    if ins == {'consumers'} and not dele and not upd:
        return 'createConsumer'
    if dele == {'consumers'} and not ins and not upd:
        return 'cleanup|main'      # an allocation write with nothing to write issues the same statements
    if upd == {'consumers'} and not ins and not dele:
        return 'updateConsumer'
    return 'main'


def warm_aux(app):
    """project / user / consumer-type names used by racing requests exist in every start state
    (auxiliary registries; their creation races are outside the modelled scope, DESIGN section 6)"""
    cfg = app.conf.placement
    for p in gen.PROJECTS + [cfg.incomplete_consumer_project_id]:
        app.sql("insert into projects (external_id) select ? where not exists (select 1 from projects where external_id = ?)", (p, p))
    for u in gen.USERS + [cfg.incomplete_consumer_user_id]:
        app.sql("insert into users (external_id) select ? where not exists (select 1 from users where external_id = ?)", (u, u))
    for t in gen.CTYPES:
        app.sql("insert into consumer_types (name) select ? where not exists (select 1 from consumer_types where name = ?)", (t, t))


def model_reset_load(dump):
    _MODEL.reset(list(orc.STANDARDS), sorted(os_traits.get_traits()),
                 _APP.conf.placement.incomplete_consumer_project_id, _APP.conf.placement.incomplete_consumer_user_id)
    load_dump(_MODEL, dump)


# --------------------------------------------------------------------------- exploration
def explore(start_snap, start_dump, oplist, max_leaves, rng=None):
    """Stateless DFS over canonical schedules (two adjacent READ transactions of different requests
    commute: only the order with the lower request index first is explored).  Yields leaves:
    dict(schedule, responses, trace, dump)."""
    stack = [[]]
    leaves = 0
    pruned = 0
    while stack:
        prefix = stack.pop()
        if leaves >= max_leaves:
            break
        _APP.restore(start_snap)
        from harness import sched as _sched
        del _sched.INSERTED[:]
        del _sched.INSERT_BY[:]
        reqs = [(lambda op=op: ops.apply_real(_APP, op)) for op in oplist]
        steps = []       # (chosen, alive_modes before the choice)

        def chooser(k, alive_modes, last):
            if k < len(prefix):
                c = prefix[k]
            else:
                c = None
                for j in sorted(alive_modes):
                    if last is not None and last[1] == 'r' and alive_modes[j] == 'r' and j < last[0]:
                        continue
                    c = j
                    break
            steps.append((c, dict(alive_modes), last))
            return c
        from harness import app as app_mod
        hangs0 = app_mod.HANGS[0]
        res, trace, complete = run_with_chooser(reqs, chooser)
        if app_mod.HANGS[0] > hangs0:
            # a request of this pair does not terminate (answered 599 by the harness): report this schedule and stop,
            # every further schedule would cost the same time-out again
            yield {'schedule': [s[0] for s in steps if s[0] is not None], 'responses': res, 'trace': trace,
                   'dump': _APP.dump(), 'rowid_reused': False, 'consumer_creators': []}
            return
        # alternatives beyond the prefix
        for k in range(len(prefix), len(steps)):
            c, alive_modes, last = steps[k]
            if c is None:
                break
            for j in sorted(alive_modes):
                if j == c:
                    continue
                if last is not None and last[1] == 'r' and alive_modes[j] == 'r' and j < last[0]:
                    continue
                if j < c:
                    continue        # explored when that branch was the default
                stack.append([s[0] for s in steps[:k]] + [j])
        if not complete:
            pruned += 1
            continue
        leaves += 1
        yield {'schedule': [s[0] for s in steps if s[0] is not None], 'responses': res, 'trace': trace,
               'dump': _APP.dump(), 'rowid_reused': _sched.rowid_reused(),
               'consumer_creators': sorted({i for (t, i) in _sched.INSERT_BY if t == 'consumers' and i is not None})}


def run_with_chooser(reqs, chooser):
    """like SchedApp.run_schedule but the next request is chosen by `chooser(k, alive_modes, last)`;
    returns (responses, trace, complete)"""
    import greenlet
    from harness import sched
    res = [None] * len(reqs)

    def mk(i, r):
        def body():
            res[i] = r()
            return ('done', None)
        g = greenlet.greenlet(body)
        g.sched_index = i
        return g
    gs = [mk(i, r) for i, r in enumerate(reqs)]
    alive = {}
    trace = []
    for i, g in enumerate(gs):
        out = g.switch()
        if g.dead:
            trace.append((i, 'end', []))
        else:
            alive[i] = out[1]
    last = None
    k = 0
    complete = True
    while alive:
        i = chooser(k, alive, last)
        k += 1
        if i is None:
            complete = False
            break
        if i not in alive:
            # the schedule prefix being replayed names a request that has ended already: this run did not repeat the
            # earlier one (a request abandoned by the deadline, or a service that is not deterministic)
            complete = False
            break
        g = gs[i]
        while True:
            del sched.STMTS[:]
            mode = alive[i]
            out = g.switch()
            stmts = [x for x in sched.STMTS if x[0] not in ('BEGIN', 'COMMIT', 'ROLLBACK', 'SAVEPOINT', 'RELEASE', 'PRAGMA')]
            if g.dead:
                del alive[i]
                trace.append((i, mode, stmts))
                last = (i, mode)
                break
            alive[i] = out[1]
            if stmts:
                trace.append((i, mode, stmts))
                last = (i, mode)
                break
    if not complete:
        # let the abandoned requests finish so that no greenlet is left inside a handler
        for i in sorted(alive):
            g = gs[i]
            while not g.dead:
                g.switch()
    return res, trace, complete


# --------------------------------------------------------------------------- monitors
def serial_outcomes(start_snap, oplist, order):
    _APP.restore(start_snap)
    st = []
    for i in order:
        st.append(ops.apply_real(_APP, oplist[i]).status)
    return st, _APP.dump()


def ok(st):
    return st is not None and 200 <= st < 300


def guarded_gen(op):
    """(provider uuid, generation carried) pairs of a request"""
    o = op['op']
    if o in ('inv_set', 'inv_update', 'rp_traits_set'):
        return [(op['uuid'], op['gen'])]
    if o == 'aggs_set' and op.get('mv', 39) >= 19:
        return [(op['uuid'], op['gen'])]
    if o == 'reshape':
        return [(r['uuid'], r['gen']) for r in op['invs']]
    return []


def consumer_gens(op):
    if op.get('mv', 39) < 28:
        return []
    o = op['op']
    if o == 'alloc_put':
        return [(op['c']['uuid'], op['c']['gen'])]
    if o in ('alloc_post', 'reshape'):
        return [(c['uuid'], c['gen']) for c in op['cs']]
    return []


def _stale_empty_reshape_entry(oplist, sts, final_dump):
    """a successful reshape carries an EMPTY entry for a consumer, another successful request carries the same
    (consumer, generation), and the consumer holds nothing at the end"""
    holders = {x[1] for x in final_dump['allocs']}
    for i, op in enumerate(oplist):
        if op['op'] != 'reshape' or not ok(sts[i]):
            continue
        for c in op['cs']:
            if c['allocs'] or c['uuid'] in holders:
                continue
            for j, other in enumerate(oplist):
                if j != i and ok(sts[j]) and (c['uuid'], c['gen']) in consumer_gens(other):
                    return True
    return False


def named_consumers(op):
    o = op['op']
    if o == 'alloc_put':
        return [op['c']['uuid']]
    if o in ('alloc_post', 'reshape'):
        return [c['uuid'] for c in op['cs']]
    return []


def new_consumer_race(start_dump, oplist):
    """two in-flight requests name one consumer that does not exist in the start state"""
    cnt = {}
    for op in oplist:
        for u in set(named_consumers(op)):
            if u not in start_dump['consumers']:
                cnt[u] = cnt.get(u, 0) + 1
    return any(v >= 2 for v in cnt.values())


def noop_trait_puts(oplist, leaf):
    """indices of successful PUT .../traits requests whose write transaction changed nothing"""
    out = []
    for i, op in enumerate(oplist):
        if op['op'] != 'rp_traits_set' or not ok(leaf['responses'][i].status if leaf['responses'][i] else None):
            continue
        ws = [st for (j, m, st) in leaf['trace'] if j == i and m == 'w']
        if ws and all(v == 'SELECT' for v, _ in ws[-1]):
            out.append(i)
    return out


def noop_empty_writes(oplist, leaf, consumer):
    """indices of successful allocation writes whose entry for `consumer` is empty and whose write
    transaction changed no allocation and no generation (the consumer had nothing left to clear)"""
    out = []
    for i, op in enumerate(oplist):
        r = leaf['responses'][i]
        if r is None or not ok(r.status):
            continue
        entries = [c for c in (([op['c']] if op['op'] == 'alloc_put' else op.get('cs', [])) if op['op'] in ('alloc_put', 'alloc_post') else [])
                   if c['uuid'] == consumer]
        if not entries or any(c['allocs'] for c in entries):
            continue
        ws = [st for (j, m, st) in leaf['trace'] if j == i and m == 'w']
        if ws and not any(v in ('INSERT', 'UPDATE') or (v == 'DELETE' and t == 'allocations') for v, t in ws[-1]):
            out.append(i)
        elif ws and not any(v in ('INSERT', 'UPDATE') for v, t in ws[-1]):
            out.append(i)
        elif ws and not any(v != 'SELECT' and (t in ('allocations', 'resource_providers', 'inventories') or
                                               (v == 'INSERT' and t == 'consumers')) for v, t in ws[-1]):
            # it touched neither allocations nor providers: at most an UPDATE of the attributes of a consumer record that
            # is no longer there (the request named another project / user / type)
            out.append(i)
    return out


def monitors(props, start_snap, start_dump, oplist, leaf, serial_cache):
    out = []
    sts = [r.status if r is not None else None for r in leaf['responses']]
    n = len(oplist)
    for i, r in enumerate(leaf['responses']):
        if r is not None and r.status == 599:
            out.append(('request-did-not-terminate:%s' % oplist[i]['op'], 'request %d was abandoned by the harness: %s' % (i, str(r.json)[:120])))
        elif r is not None and r.status >= 500:
            out.append(('5xx:%s' % oplist[i]['op'], 'request %d answered %s: %s' % (i, r.status, str(r.json)[:200])))
    if 'C05' in props:
        seen = {}
        for i, op in enumerate(oplist):
            if ok(sts[i]):
                for key in guarded_gen(op):
                    if key in seen:
                        j = seen[key]
                        noop = noop_trait_puts(oplist, leaf)
                        if i in noop or j in noop:
                            sig = 'c05:noop-traits-put-accepted-with-stale-generation'
                        else:
                            sig = 'c05:two-successes-same-generation:%s+%s' % tuple(sorted((oplist[j]['op'], op['op'])))
                        out.append((sig, 'requests %d and %d both succeeded carrying generation %s of %s' % (j, i, key[1], key[0])))
                    seen[key] = i
            else:
                if sts[i] == 409 and guarded_gen(op) and op.get('mv', 39) >= 23:
                    pass
        # generations never decrease: a request that SUCCEEDS carrying a generation below the one the provider had when
        # the race began cannot have been checked against the current generation in any schedule
        noop_now = None
        for i, op in enumerate(oplist):
            if ok(sts[i]):
                for (u, g_) in guarded_gen(op):
                    g0 = start_dump['rps'].get(u, {}).get('gen')
                    if g_ is not None and g0 is not None and g_ < g0:
                        if noop_now is None:
                            noop_now = noop_trait_puts(oplist, leaf)
                        sig = 'c05:noop-traits-put-accepted-with-stale-generation' if i in noop_now else \
                            'c05:accepted-with-past-generation:%s' % op['op']
                        out.append((sig, 'request %d succeeded carrying generation %s of %s, which was already at %s' % (i, g_, u, g0)))
    if 'C06' in props:
        seen = {}
        for i, op in enumerate(oplist):
            if ok(sts[i]):
                for key in consumer_gens(op):
                    if key in seen:
                        j = seen[key]
                        noop = noop_empty_writes(oplist, leaf, key[0])
                        out.append(('c06:two-creators-both-succeed' if key[1] is None and key[0] not in start_dump['consumers']
                                    else 'c06:noop-empty-write-accepted-with-stale-generation' if (i in noop or j in noop)
                                    else 'c06:two-successes-same-consumer-generation:%s' % ('null' if key[1] is None else 'int'),
                                    'requests %d and %d both succeeded carrying consumer_generation %s of %s' % (j, i, key[1], key[0])))
                    seen[key] = i
    if 'NOSERIAL' not in props and any(p in props for p in ('C04', 'C05', 'C06', 'C07', 'C08', 'C09', 'C19')):
        ser0 = 'c07:' if any(p in props for p in ('C05', 'C06', 'C07')) else '%s:race:' % sorted(props)[0].lower()
        succ = [i for i in range(n) if ok(sts[i])]
        final = core(leaf['dump'])
        match = False
        for order in itertools.permutations(succ):
            key = tuple(order)
            if key not in serial_cache:
                serial_cache[key] = serial_outcomes(start_snap, oplist, order)
            st2, d2 = serial_cache[key]
            if all(ok(s) for s in st2) and core(d2) == final:
                match = True
                break
        if not match:
            # a PUT traits / an empty allocation write that changed nothing but was accepted with a
            # stale generation?
            noop_t = noop_trait_puts(oplist, leaf)
            noop_e = sorted({i for op in oplist for u in set(named_consumers(op)) for i in noop_empty_writes(oplist, leaf, u)})
            noop = noop_t + [i for i in noop_e if i not in noop_t]
            if noop:
                succ2 = [i for i in succ if i not in noop]
                for order in itertools.permutations(succ2):
                    key = tuple(order)
                    if key not in serial_cache:
                        serial_cache[key] = serial_outcomes(start_snap, oplist, order)
                    st2, d2 = serial_cache[key]
                    if all(ok(x) for x in st2) and core(d2) == final:
                        match = True
                        break
                # (a matter of C05 - C07 only: the no-op request was ACCEPTED, so for the properties about rejected writes,
                # dangling records, the forest and the name tables the schedule is as good as a serial one)
                if match and ser0 == 'c07:':
                    out.append(('c07:noop-traits-put-accepted-with-stale-generation' if noop_t else
                                'c07:noop-empty-write-accepted-with-stale-generation',
                                'statuses %s: serializable only without the no-op request(s) %s' % (sts, noop)))
        if not match and ser0 != 'c07:' and _stale_empty_reshape_entry(oplist, sts, leaf['dump']):
            match = True        # an ACCEPTED empty entry: a matter of C05 - C07 only (see the no-op case above)
        if not match:
            # classify
            d = leaf['dump']
            pfx = ser0 + 'new-consumer-race:' if new_consumer_race(start_dump, oplist) else ser0
            holders = {x[1] for x in d['allocs']}
            if holders - set(d['consumers']):
                # who removed the consumer record?  the listed finding is: the request that CREATED the record fails and
                # removes it in its clean-up although another request has adopted it meanwhile.  A clean-up by a request
                # that did not create the record is a different defect and must not hide behind that finding.
                creators = set(leaf.get('consumer_creators') or
                               [i for (i, m, st) in leaf['trace'] if ('INSERT', 'consumers') in [tuple(x) for x in st]][:1])
                removers = {i for (i, m, st) in leaf['trace'] if ('DELETE', 'consumers') in [tuple(x) for x in st]
                            and not ok(sts[i])}
                who = 'deleted-by-creator' if removers and removers <= creators else \
                    ('deleted-by-non-creator' if removers else 'deleted-by-successful-request')
                sig = pfx + 'not-serializable:allocations-without-consumer:' + who
            elif pfx == ser0 == 'c07:' and _stale_empty_reshape_entry(oplist, sts, d):
                # the listed defect of empty entries (an empty entry for a consumer that has nothing left when the request
                # commits is accepted whatever generation it carries), met in a reshape - which cannot be set aside as a
                # whole like a no-op PUT because it also replaces inventories
                sig = 'c07:empty-reshape-entry-accepted-with-stale-generation'
            elif set(d['consumers']) - holders:
                sig = pfx + 'not-serializable:consumer-without-allocations'
            elif pfx != ser0:
                sig = pfx + 'not-serializable'
            else:
                sig = ser0 + 'not-serializable:%s' % '+'.join(sorted(op['op'] for op in oplist))
            out.append((sig, 'statuses %s: no serial order of the successful requests %s reproduces the final state with all of them succeeding'
                        % (sts, succ)))
    return out


# --------------------------------------------------------------------------- one case
def race_case(args):
    seed, props, max_leaves, profile = args
    rng = random.Random(seed)
    out = {'seed': seed, 'violations': [], 'leaves': 0, 'pairs': [], 'trace_mismatch': 0, 'labels': {}}
    try:
        # start state through the API
        _APP.reset()
        g = gen.Gen(rng, weights=profile.get('setup_weights'), n_rps=profile.get('n_rps', 3), mv_mode='latest')
        from harness import app as app_mod
        if app_mod.HANGS[0] >= 2:
            return out
        for _ in range(profile.get('setup_ops', 14)):
            sop = g.op(gen.View(_APP.dump()))
            if ops.apply_real(_APP, sop).status == 599:
                out['violations'].append({'kind': 'monitor', 'signature': 'request-did-not-terminate:%s' % sop['op'],
                                          'detail': 'a request of the start-state construction did not terminate',
                                          'replay': {'type': 'schedule', 'module': 'harness.conc', 'start_dump': _APP.dump(),
                                                     'ops': [sop], 'schedule': [], 'props': list(props)}})
                return out
        if profile.get('ensure_inventories', True):
            # every provider of the start state has some inventory (writes spanning several providers need it)
            d0 = _APP.dump()
            have = {i[0] for i in d0['invs']}
            for u, r in sorted(d0['rps'].items()):
                if u not in have:
                    ops.apply_real(_APP, {'op': 'inv_set', 'mv': 39, 'uuid': u, 'gen': r['gen'],
                                          'invs': [ops.inv(rng.choice(['VCPU', 'DISK_GB']), rng.choice([4, 8, 16]))]})
        if profile.get('picker') == 'tree':
            # the custom classes / traits the deletion-versus-use scenarios name exist in the start state
            for n in gen.CUSTOM_RCS:
                ops.apply_real(_APP, {'op': 'rc_put', 'mv': 39, 'name': n})
            for n in gen.CUSTOM_TRAITS:
                ops.apply_real(_APP, {'op': 'trait_put', 'mv': 39, 'name': n})
        warm_aux(_APP)
        start_dump = _APP.dump()
        start_snap = _APP.snapshot()
        v = gen.View(start_dump)
        oplist = pick_tree_race(rng, g, v, profile) if profile.get('picker') == 'tree' else pick_race(rng, g, v, profile)
        out['shapes'] = list(SHAPES) if profile.get('picker') != 'tree' else []
        with_model = profile.get('model', True) and all(op['op'] in MODEL_SCHED_OPS for op in oplist)
        out['pairs'].append('+'.join(op['op'] for op in oplist))
        serial_cache = {}
        for leaf in explore(start_snap, start_dump, oplist, max_leaves, rng):
            out['leaves'] += 1
            if leaf.get('rowid_reused'):
                out['rowid_reused'] = out.get('rowid_reused', 0) + 1
                continue
            vio = []
            for sig, detail in monitors(props, start_snap, start_dump, oplist, leaf, serial_cache):
                vio.append({'kind': 'monitor', 'signature': sig, 'detail': detail})
            for sig, detail in final_state_monitors(props, start_dump, oplist, leaf):
                vio.append({'kind': 'monitor', 'signature': sig, 'detail': detail})
            # model
            if not with_model:
                for x in vio:
                    x['replay'] = {'type': 'schedule', 'module': 'harness.conc', 'start_dump': start_dump, 'ops': oplist,
                                   'schedule': leaf['schedule'], 'props': list(props),
                                   'observed_statuses': [r.status if r else None for r in leaf['responses']],
                                   'observed': x['detail'],
                                   'trace': [(i, m, sorted(set('%s.%s' % (s0[0], s0[1]) for s0 in st))) for (i, m, st) in leaf['trace']]}
                    if sum(1 for y in out['violations'] if y['signature'] == x['signature']) < 3:
                        out['violations'].append(x)
                continue
            real_steps = [(i, classify(m, st)) for (i, m, st) in leaf['trace'] if m != 'end']
            real_steps = [(i, l) for (i, l) in real_steps if l != 'rcCache']
            for _, l in real_steps:
                out['labels'][l] = out['labels'].get(l, 0) + 1
            model_reset_load(start_dump)
            mr = _MODEL.send({'cmd': 'sched', 'ops': oplist, 'schedule': [i for i, _ in real_steps]})
            if 'error' in mr:
                vio.append({'kind': 'correspondence', 'signature': 'driver-error', 'detail': mr['error']})
            else:
                mtrace = [(a, b) for a, b in mr['trace']]
                if len(mtrace) != len(real_steps) or any(
                        a[0] != b[0] or a[1] not in b[1].split('|') for a, b in zip(mtrace, real_steps)):
                    out['trace_mismatch'] += 1
                    vio.append({'kind': 'correspondence', 'signature': 'txn-trace:%s' % '+'.join(op['op'] for op in oplist),
                                'detail': 'real %s model %s' % (real_steps, mtrace)})
                else:
                    for i, r in enumerate(leaf['responses']):
                        m = mr['responses'][i]
                        if m is None or r.status != m['status'] or (oplist[i].get('mv', 39) >= 23 and ops.error_code(r) != m['code']):
                            vio.append({'kind': 'correspondence', 'signature': 'sched-status:%s' % oplist[i]['op'],
                                        'detail': 'request %d real %s %s model %s' % (i, r.status, ops.error_code(r), m)})
                    d = diff_dumps(leaf['dump'], _MODEL.dump(), ['rps', 'invs', 'allocs', 'consumers', 'rp_traits', 'rp_aggs'])
                    if d:
                        vio.append({'kind': 'correspondence', 'signature': 'sched-state:%s' % '+'.join(x['table'] for x in d),
                                    'detail': json.dumps(d)[:500]})
            for x in vio:
                x['replay'] = {'type': 'schedule', 'module': 'harness.conc', 'start_dump': start_dump, 'ops': oplist,
                               'schedule': leaf['schedule'], 'props': list(props),
                               'observed_statuses': [r.status if r else None for r in leaf['responses']],
                               'observed': x['detail'],
                               'trace': [(i, m, sorted(set('%s.%s' % (v0[0], t) for v0, t in [(s, s[1]) for s in st]))) for (i, m, st) in leaf['trace']]}
                if sum(1 for y in out['violations'] if y['signature'] == x['signature']) < 3:
                    out['violations'].append(x)
    except BaseException:      # incl. an escaped RequestHang: a dead pool worker would hang the check
        out['error'] = traceback.format_exc()
    return out


# requests whose transaction programs exist in Model/Txn.lean (`prog`); trait and class requests are single `.other`
# steps there, so schedules containing them are judged by the monitors only
MODEL_SCHED_OPS = ('inv_set', 'inv_add', 'inv_update', 'inv_delete', 'inv_delete_all', 'rp_traits_set', 'rp_traits_delete',
                   'aggs_set', 'alloc_put', 'alloc_post', 'reshape', 'alloc_delete', 'rp_create', 'rp_update', 'rp_delete')


def final_state_monitors(props, start_dump, oplist, leaf):
    """C08 / C09 evaluated on the state a schedule ends in (independent of the model)"""
    from harness import monitors as mon
    out = []
    d = leaf['dump']
    kinds = '+'.join(sorted(op['op'] for op in oplist))
    if 'C08' in props:
        im = mon.inv_map(d)
        for (rp, c, rc, used) in d['allocs']:
            if rp not in d['rps']:
                out.append(('c08:race:alloc-without-provider:%s' % kinds, str([rp, c, rc, used])))
            elif (rp, rc) not in im:
                out.append(('c08:race:alloc-without-inventory:%s' % kinds, str([rp, c, rc, used])))
            if c not in d['consumers']:
                if not new_consumer_race(start_dump, oplist):
                    out.append(('c08:race:alloc-without-consumer:%s' % kinds, str([rp, c, rc, used])))
                else:
                    # the listed creation-race defect (C06 / C07 / C12) is: the request that CREATED the record removes it
                    # in its clean-up; a removal by any other request is something else and is reported here
                    sts_ = [r.status if r is not None else None for r in leaf['responses']]
                    creators = set(leaf.get('consumer_creators') or [])
                    removers = {i for (i, m, st) in leaf['trace'] if ('DELETE', 'consumers') in [tuple(x) for x in st] and not ok(sts_[i])}
                    if not (removers and removers <= creators):
                        out.append(('c08:race:alloc-without-consumer:new-consumer-race:%s'
                                    % ('removed-by-non-creator' if removers else 'removed-by-successful-request'), str([rp, c, rc, used])))
        for r in d['invs']:
            if r[0] not in d['rps'] or str(r[1]).startswith('?'):
                out.append(('c08:race:dangling-inventory:%s' % kinds, str(r)))
        for x in d['rp_traits'] + d['rp_aggs']:
            if x[0] not in d['rps'] or str(x[1]).startswith('?'):
                out.append(('c08:race:dangling-association:%s' % kinds, str(x)))
    if 'C12' in props:
        sts = [r.status if r is not None else None for r in leaf['responses']]
        holders = {x[1] for x in d['allocs']}
        race = 'new-consumer-race' if new_consumer_race(start_dump, oplist) else 'existing-consumer'
        for u in sorted(holders - set(d['consumers'])):
            creators = set(leaf.get('consumer_creators') or [])
            removers = {i for (i, m, st) in leaf['trace'] if ('DELETE', 'consumers') in [tuple(x) for x in st] and not ok(sts[i])}
            who = 'removed-by-creator' if removers and removers <= creators else \
                ('removed-by-non-creator' if removers else 'removed-by-successful-request')
            out.append(('c12:race:%s:allocations-without-consumer:%s' % (race, who), u))
        for u in sorted(set(d['consumers']) - holders):
            if u in start_dump['consumers'] and u not in {x[1] for x in start_dump['allocs']}:
                continue
            out.append(('c12:race:%s:consumer-without-allocations' % race, u))
    if 'C19' in props:
        names = [n for n, _ in d.get('custom_rcs', [])]
        ids = [i for _, i in d.get('custom_rcs', [])]
        if len(set(names)) != len(names) or len(set(d.get('custom_traits', []))) != len(d.get('custom_traits', [])):
            out.append(('c19:race:duplicate-name:%s' % kinds, str(names)))
        if len(set(ids)) != len(ids) or any(i < 10000 for i in ids):
            out.append(('c19:race:custom-class-id:%s' % kinds, str(d.get('custom_rcs'))))
        sts = [r.status if r is not None else None for r in leaf['responses']]
        allowed = {'rc_post': (201, 409), 'rc_put': (201, 204), 'trait_put': (201, 204), 'rc_delete': (204, 404, 409),
                   'trait_delete': (204, 404, 409)}
        for op, st in zip(oplist, sts):
            if op['op'] in allowed and st not in allowed[op['op']]:
                out.append(('c19:race:status:%s:%s' % (op['op'], st), 'statuses %s for %s' % (sts, kinds)))
        # a name that did not exist is created ONCE: of the requests creating it (and none deleting it) exactly one may
        # answer 201, the others met an existing name (204 / 409)
        creators = {}
        for op, st in zip(oplist, sts):
            if op['op'] in ('rc_post', 'rc_put', 'trait_put'):
                creators.setdefault((op['op'].split('_')[0], op['name']), []).append(st)
        deleted = {(op['op'].split('_')[0], op['name']) for op in oplist if op['op'] in ('rc_delete', 'trait_delete')}
        for key, ss in creators.items():
            if key not in deleted and ss.count(201) > 1:
                out.append(('c19:race:created-twice:%s' % kinds, '%s %s: statuses %s' % (key[0], key[1], sts)))
    if 'C09' in props:
        for e in mon.forest_errors(d['rps']):
            out.append(('c09:race:forest:%s' % kinds, e))
    return out


def pick_tree_race(rng, g, v, profile):
    """two requests racing on the provider tree / on entities in use: creation under a parent against a move or the
    deletion of that parent, two moves that would form a loop together, deletion of a provider, inventory, class or
    trait against a request that starts using it"""
    rps = list(v.rps)
    fresh = [u for u in gen.RPS if u not in v.rps] or ['%08d-0000-0000-0000-00000000ffff' % rng.randrange(10 ** 8)]

    def create_under(p):
        u = rng.choice(fresh)
        return {'op': 'rp_create', 'mv': 39, 'uuid': u, 'name': 'n-' + u[:8] + '-x', 'parent': p}

    def move(u, p, mv=39):
        return {'op': 'rp_update', 'mv': mv, 'uuid': u, 'name': v.rps[u]['name'], 'has_parent': True, 'parent': p}

    def delete(u):
        return {'op': 'rp_delete', 'mv': 39, 'uuid': u}

    def alloc_on(u):
        keys = [k for k in v.invs if k[0] == u]
        c = rng.choice(gen.CONSUMERS)
        creq = g.consumer_req(v, 39, c, empty_ok=False)
        if keys:
            k = rng.choice(keys)
            creq['allocs'] = [[k[0], k[1], max(1, g.amount_for(v, k, c))]]
        return {'op': 'alloc_put', 'mv': 39, 'c': creq}
    if len(rps) < 2:
        return [create_under(rps[0] if rps else None), create_under(rps[0] if rps else None)]
    a, b = rng.sample(rps, 2)
    leafs = [u for u in rps if not any(r['parent'] == u for r in v.rps.values())]
    free_leafs = [u for u in leafs if not any(k[0] == u for k in v.used)] or leafs or rps
    t = rng.choice(free_leafs)
    scen = rng.choice(profile.get('scenarios') or ['create-vs-move', 'create-vs-unparent', 'create-vs-delete', 'move-vs-move', 'move-vs-delete',
                                                   'delete-vs-alloc', 'delete-vs-inv', 'delete-vs-traits', 'invdelete-vs-alloc',
                                                   'rcdelete-vs-inv', 'traitdelete-vs-use'])
    if scen == 'create-vs-move':
        return [create_under(a), move(a, b, rng.choice([39, 39, 14]))]
    if scen == 'create-vs-unparent':
        kids = [u for u in rps if v.rps[u]['parent'] is not None] or [a]
        k = rng.choice(kids)
        return [create_under(k), move(k, None)]
    if scen == 'create-vs-delete':
        return [create_under(t), delete(t)]
    if scen == 'move-vs-move':
        return [move(a, b), move(b, a)] if rng.random() < 0.6 else [move(a, b), move(a, rng.choice(rps + [None]))]
    if scen == 'move-vs-delete':
        return [move(a, t), delete(t)] if rng.random() < 0.5 else [move(t, a), delete(t)]
    if scen == 'delete-vs-alloc':
        withinv = [u for u in free_leafs if any(k[0] == u for k in v.invs)] or [t]
        u = rng.choice(withinv)
        return [delete(u), alloc_on(u)]
    if scen == 'delete-vs-inv':
        op = g.g_inv_set(v)
        op['uuid'], op['gen'], op['mv'] = t, v.rps[t]['gen'], 39
        return [delete(t), op]
    if scen == 'delete-vs-traits':
        op = g.g_rp_traits_set(v) if rng.random() < 0.5 else g.g_aggs_set(v)
        op['uuid'], op['gen'], op['mv'] = t, v.rps[t]['gen'], 39
        return [delete(t), op]
    if scen == 'invdelete-vs-alloc':
        keys = [k for k in v.invs if not v.used.get(k)] or list(v.invs)
        if not keys:
            return [delete(t), alloc_on(t)]
        k = rng.choice(keys)
        other = alloc_on(k[0])
        other['c']['allocs'] = [[k[0], k[1], max(1, g.amount_for(v, k, other['c']['uuid']))]]
        first = {'op': 'inv_delete', 'mv': 39, 'uuid': k[0], 'rc': k[1]} if rng.random() < 0.6 else \
            {'op': 'inv_delete_all', 'mv': 39, 'uuid': k[0]}
        return [first, other]
    if scen == 'rcdelete-vs-inv':
        rc = rng.choice(gen.CUSTOM_RCS)
        if rng.random() < 0.5:
            return [{'op': 'rc_delete', 'mv': 39, 'name': rc},
                    {'op': 'inv_add', 'mv': 39, 'uuid': a, 'inv': ops.inv(rc, 4)}]
        cur = [ops.inv(k[1], i['total'], reserved=i['reserved'], min_unit=i['min_unit'], max_unit=i['max_unit'],
                       step_size=i['step_size'], ratio=i['ratio']) for k, i in sorted(v.invs.items()) if k[0] == a and k[1] != rc]
        return [{'op': 'rc_delete', 'mv': 39, 'name': rc},
                {'op': 'inv_set', 'mv': 39, 'uuid': a, 'gen': v.rps[a]['gen'], 'invs': cur + [ops.inv(rc, 4)]}]
    if scen == 'name-create-race':
        # two requests creating (or creating and deleting) the same custom name
        n = 'CUSTOM_RACE%d' % rng.randrange(3)
        kind = rng.choice(['rc_post+rc_post', 'rc_put+rc_put', 'rc_post+rc_put', 'trait_put+trait_put', 'rc_put+rc_delete',
                           'trait_put+trait_delete', 'rc_post+rc_post-different'])
        a_, b_ = kind.replace('-different', '').split('+')
        n2 = n + 'B' if kind.endswith('different') else n
        return [{'op': a_, 'mv': 39, 'name': n}, {'op': b_, 'mv': 39, 'name': n2}]
    if scen == 'name-delete-race':
        n = rng.choice(gen.CUSTOM_RCS + gen.CUSTOM_TRAITS)
        k = 'rc_delete' if n in gen.CUSTOM_RCS else 'trait_delete'
        return [{'op': k, 'mv': 39, 'name': n}, {'op': k, 'mv': 39, 'name': n}]
    tr = rng.choice(gen.CUSTOM_TRAITS)
    return [{'op': 'trait_delete', 'mv': 39, 'name': tr},
            {'op': 'rp_traits_set', 'mv': 39, 'uuid': a, 'gen': v.rps[a]['gen'], 'traits': [tr]}]


SHAPES = []     # the directed shapes applied to the case being built (reported in the evidence)


def pick_race(rng, g, v, profile):
    """two or three requests racing for a common provider and/or consumer, generations read from the
    start state (so that they are all 'current' and conflict), sometimes stale"""
    del SHAPES[:]
    n = 3 if rng.random() < profile.get('p_three', 0.0) else 2
    kinds = profile['race_kinds']
    ks = list(kinds)
    rps = list(v.rps)
    target = rng.choice(rps) if rps else gen.RPS[0]
    cons = rng.choice(gen.CONSUMERS)
    if v.consumers and rng.random() < profile.get('existing_consumer_bias', 0.3):
        cons = rng.choice(list(v.consumers))
    with_allocs = [c for c in v.consumers if v.by_consumer.get(c)]
    if with_allocs and 'alloc_delete' in kinds and rng.random() < 0.8:
        cons = rng.choice(with_allocs)        # a DELETE of a consumer that holds nothing is a 404
    out = []
    for _ in range(n):
        k = rng.choices(ks, weights=[kinds[x] for x in ks])[0]
        op = getattr(g, 'g_' + k)(v)
        # aim at the common target
        if 'uuid' in op and rng.random() < 0.85:
            op['uuid'] = target
            if 'gen' in op and op['gen'] is not None:
                cur_g = v.rps.get(target, {}).get('gen', 0)
                op['gen'] = cur_g if rng.random() < 0.85 else rng.choice([op['gen'], 0, max(0, cur_g - 1)])
            if k == 'inv_update' or k == 'inv_delete':
                keys = [kk for kk in v.invs if kk[0] == target]
                if keys:
                    rc = rng.choice(keys)[1]
                    if k == 'inv_update':
                        op['inv']['rc'] = rc
                    else:
                        op['rc'] = rc
        if k == 'alloc_put' and rng.random() < 0.8:
            mv = op['mv']
            op['c'] = g.consumer_req(v, mv, cons)
            keys = [kk for kk in v.invs if kk[0] == target]
            if keys and rng.random() < 0.7:
                kk = rng.choice(keys)
                op['c']['allocs'] = [[kk[0], kk[1], g.amount_for(v, kk, cons)]]
            if mv >= 28 and rng.random() < profile.get('empty_bias', 0.0):
                op['c']['allocs'] = []
        if k == 'alloc_post' and rng.random() < 0.8:
            mv = op['mv']
            others = [c for c in gen.CONSUMERS if c != cons]
            op['cs'] = [g.consumer_req(v, mv, cons)] + ([g.consumer_req(v, mv, rng.choice(others))] if rng.random() < 0.5 else [])
            if mv >= 28 and rng.random() < profile.get('empty_bias', 0.0):
                # the move shape: the common consumer is emptied (and another one written) in one POST
                op['cs'][0]['allocs'] = []
                if rng.random() < 0.5:
                    op['cs'].reverse()
        if k == 'alloc_delete' and rng.random() < 0.8:
            op['consumer'] = cons
        if k == 'aggs_set' and 'mv' in op:
            op['mv'] = rng.choice([39, 39, 19, 18])
            op['gen'] = v.rps.get(op['uuid'], {}).get('gen', 0) if op['mv'] >= 19 else None
            if op['gen'] and rng.random() < 0.2:
                op['gen'] = rng.choice([0, op['gen'] - 1])      # a generation of the past (0: the first one every client saw)
        out.append(op)
    # directed variant: of two allocation writes for one consumer, one is built to be ACCEPTED on its own (small valid
    # amounts) and the other to be REJECTED at the write stage (one unit more than is left) - the pattern in which a
    # clean-up by the rejected request can damage what the accepted one wrote
    puts = [o for o in out if o['op'] == 'alloc_put']
    keys = list(v.invs)
    if len(puts) >= 2 and keys and rng.random() < 0.35:
        SHAPES.append('accepted-vs-rejected-write')
        a, b = rng.sample(puts, 2)
        b['c']['uuid'] = a['c']['uuid']
        for o in (a, b):
            cur = v.consumers.get(o['c']['uuid'])
            o['c']['gen'] = (cur['gen'] if cur else None) if o['mv'] >= 28 else None
        kk = rng.choice(keys)
        a['c']['allocs'] = [[kk[0], kk[1], max(1, g.amount_for(v, kk, a['c']['uuid'], share=3))]]
        kb = rng.choice(keys)
        b['c']['allocs'] = [[kb[0], kb[1], max(1, v.remaining(kb, b['c']['uuid']) + 1)]]
    # directed variant: the move shape against a plain write - a POST that EMPTIES an existing consumer which holds
    # allocations (and may write another consumer) races with a write that re-writes the same consumer, both carrying the
    # consumer's current generation: exactly one of the two may succeed
    ws = [o for o in out if o['op'] in ('alloc_put', 'alloc_post') and o['mv'] >= 28]
    posts = [o for o in ws if o['op'] == 'alloc_post']
    holders = [c for c in v.consumers if v.by_consumer.get(c)]
    if posts and len(ws) >= 2 and holders and rng.random() < profile.get('p_move', 0.25):
        SHAPES.append('move-vs-write')
        mover = posts[0]
        other = [o for o in ws if o is not mover][0]
        cu = cons if cons in holders else rng.choice(holders)
        cur = v.consumers[cu]
        e = g.consumer_req(v, mover['mv'], cu)
        e['gen'], e['allocs'] = cur['gen'], []
        rest = [c for c in mover['cs'] if c['uuid'] != cu][:1]
        mover['cs'] = [e] + rest if rng.random() < 0.5 else rest + [e]
        w = g.consumer_req(v, other['mv'], cu, empty_ok=False)
        w['gen'] = cur['gen']
        if other['op'] == 'alloc_put':
            other['c'] = w
        else:
            other['cs'] = [w] + [c for c in other['cs'] if c['uuid'] != cu][:1]
    # directed variant: a POST writing TWO existing consumers that are at different generations (each carried correctly)
    # against a write of one of them with the same generation: the compare-and-swap of each consumer must be its own
    mposts = [o for o in out if o['op'] == 'alloc_post' and o['mv'] >= 28]
    if mposts and len(holders) >= 2 and len(ws) >= 2 and rng.random() < profile.get('p_two_consumers', 0.15):
        gens_ = {}
        for c_ in holders:
            gens_.setdefault(v.consumers[c_]['gen'], []).append(c_)
        if len(gens_) >= 2:
            SHAPES.append('post-two-consumers-different-generations')
            ga, gb = rng.sample(sorted(gens_), 2)
            ca, cb = rng.choice(gens_[ga]), rng.choice(gens_[gb])
            mp = mposts[0]
            ea = g.consumer_req(v, mp['mv'], ca, empty_ok=False, share=3)
            eb = g.consumer_req(v, mp['mv'], cb, empty_ok=False, share=3)
            ea['gen'], eb['gen'] = ga, gb
            mp['cs'] = [ea, eb] if rng.random() < 0.5 else [eb, ea]
            other = [o for o in ws if o is not mp][0]
            w = g.consumer_req(v, other['mv'], ca, empty_ok=False, share=3)
            w['gen'] = ga
            if other['op'] == 'alloc_put':
                other['c'] = w
            else:
                other['cs'] = [w]
    # directed variant: a POST naming several consumers whose LATER entry is rejected by `ensure_consumer` (stale
    # consumer generation) after an EARLIER entry - an existing consumer with allocations, carrying its current generation -
    # has been validated: the rejection must leave that consumer alone
    mposts = [o for o in out if o['op'] == 'alloc_post' and o['mv'] >= 28]
    if mposts and holders and rng.random() < profile.get('p_late_reject', 0.15):
        SHAPES.append('post-late-reject')
        mp = mposts[0]
        first = rng.choice(holders)
        second = rng.choice([c for c in gen.CONSUMERS if c != first])
        e1 = g.consumer_req(v, mp['mv'], first, empty_ok=False)
        e1['gen'] = v.consumers[first]['gen']
        e2 = g.consumer_req(v, mp['mv'], second, empty_ok=False)
        cur2 = v.consumers.get(second)
        e2['gen'] = (cur2['gen'] + 1) if cur2 else 3
        mp['cs'] = [e1, e2]
    # project / user / consumer-type names no request has used before, the SAME in all racing writes: the records are
    # created on first use (look-up, then insert), and losing that race must not surface
    if rng.random() < profile.get('p_new_names', 0.15):
        SHAPES.append('new-names')
        tag = rng.randrange(10 ** 6)
        for o in out:
            for c in ([o['c']] if o['op'] == 'alloc_put' else o.get('cs', []) if o['op'] in ('alloc_post', 'reshape') else []):
                c['project'], c['user'] = 'proj-r%d' % tag, 'user-r%d' % tag
                if c.get('ctype') is not None and rng.random() < 0.5:
                    c['ctype'] = 'CTYPE_R%d' % tag
    # directed variant: ONE allocation write over two providers, the provider the competing request changes listed
    # SECOND (the first attempt of `replace_all` has then already bumped the first provider inside the open transaction
    # when it loses the compare-and-swap on the second; what the retry loop does from there - and what it does when it
    # runs out of attempts - shows only in this shape)
    writes = [o for o in out if o['op'] in ('alloc_put', 'alloc_post')]
    others = [o for o in out if o['op'] not in ('alloc_put', 'alloc_post') and o.get('uuid') in v.rps]
    if len(writes) == 1 and others and rng.random() < profile.get('p_two_providers', 0.5):
        tgt = others[0]['uuid']
        if others[0]['op'].startswith('inv_') and rng.random() < 0.6 and 'rp_traits_set' in SCOPE:
            # a competitor that only moves the generation (replacing the inventory would often make the write fail
            # for another reason)
            t = g.g_rp_traits_set(v)
            t['uuid'] = tgt
            out[out.index(others[0])] = t
            others[0] = t
        if others[0].get('gen') is not None or others[0]['op'] == 'rp_traits_set':
            others[0]['gen'] = v.rps[tgt]['gen']
        k2 = [kk for kk in v.invs if kk[0] == tgt]
        k1 = [kk for kk in v.invs if kk[0] != tgt]
        if k1 and k2:
            SHAPES.append('two-providers-contended-second')
            a, b = rng.choice(k1), rng.choice(k2)
            w = writes[0]
            c = w['c'] if w['op'] == 'alloc_put' else w['cs'][0]
            cur = v.consumers.get(c['uuid'])
            c['gen'] = (cur['gen'] if cur else None) if w['mv'] >= 28 else None
            c['allocs'] = [[a[0], a[1], max(1, g.amount_for(v, a, c['uuid'], share=3))],
                           [b[0], b[1], max(1, g.amount_for(v, b, c['uuid'], share=3))]]
    # directed variant: a reshape that EMPTIES a provider (inventories {} and allocations {} for every consumer on it)
    # against a generation-guarded change of that provider: the only guard of the provider in the reshape is the final
    # generation-checked inventory write
    resh = [o for o in out if o['op'] == 'reshape']
    others = [o for o in out if o['op'] != 'reshape' and o.get('uuid') in v.rps and 'gen' in o]
    if resh and others and rng.random() < profile.get('p_empty_reshape', 0.4):
        tgt = others[0]['uuid']
        holders = sorted(c for c, lst in v.by_consumer.items() if any(u == tgt for (u, rc, used) in lst))
        SHAPES.append('emptying-reshape-vs-guarded')
        r = resh[0]
        r['invs'] = [{'uuid': tgt, 'gen': v.rps[tgt]['gen'], 'invs': []}]
        r['cs'] = []
        for c in holders:
            cur = v.consumers.get(c)
            if cur is None:
                continue
            rest = [[u, rc, used] for (u, rc, used) in v.by_consumer.get(c, []) if u != tgt]
            r['cs'].append({'uuid': c, 'project': cur['project'], 'user': cur['user'],
                            'ctype': (cur.get('ctype') or 'INSTANCE') if r['mv'] >= 38 else None, 'gen': cur['gen'], 'allocs': rest})
        if others[0].get('gen') is not None:
            others[0]['gen'] = v.rps[tgt]['gen']
    return out


def replay(doc):
    """./check replay: re-run one schedule on the real application"""
    rp = doc['replay']
    _init()
    model_reset_load(rp['start_dump'])
    # rebuild the start state in the real database from the dump through the model-independent loader
    from harness import stateload
    stateload.load_into_app(_APP, rp['start_dump'])
    warm_aux(_APP)
    snap = _APP.snapshot()
    sched_left = list(rp['schedule'])

    def chooser(k, alive_modes, last):
        return sched_left[k] if k < len(sched_left) and sched_left[k] in alive_modes else (min(alive_modes) if alive_modes else None)
    reqs = [(lambda op=op: ops.apply_real(_APP, op)) for op in rp['ops']]
    res, trace, complete = run_with_chooser(reqs, chooser)
    leaf = {'schedule': rp['schedule'], 'responses': res, 'trace': trace, 'dump': _APP.dump()}
    sts = [r.status if r else None for r in res]
    print('statuses', sts, '(recorded %s)' % rp.get('observed_statuses'))
    hit = False
    for sig, detail in monitors(rp.get('props', []), snap, rp['start_dump'], rp['ops'], leaf, {}):
        print('  ', sig, detail)
        if sig == doc.get('signature'):
            hit = True
    print('REPRODUCED' if hit else 'not reproduced')
    return 1 if hit else 0


def run_races(chk, props, n_cases, max_leaves, profile, procs=None):
    procs = procs or min(16, os.cpu_count() or 4)
    ctx = mp.get_context('fork')
    seeds = [chk.seed * 7919 + i for i in range(n_cases)]
    errors = []
    with ppool.Pool(ctx, procs, initializer=_init) as pool:
        for res in pool.imap_unordered(race_case, [(s, tuple(props), max_leaves, profile) for s in seeds]):
            if 'error' in res:
                errors.append(res['error'])
                continue
            chk.cov['evaluations'] += res['leaves']
            chk.count('schedules_explored', res['leaves'])
            chk.count('race_cases', 1)
            chk.count('schedules_skipped_sqlite_rowid_reuse', res.get('rowid_reused', 0))
            for sh in res.get('shapes', []):
                chk.tally('directed_shapes', sh)
            for p in res['pairs']:
                chk.tally('races', p)
                chk._distinct.add(p)
            for l, c in res['labels'].items():
                chk.tally('transactions_by_label', l, c)
            for x in res['violations']:
                chk.violation(x['kind'], x['signature'], x.get('detail', ''), x['replay'])
    if errors:
        raise RuntimeError('worker errors:\n' + errors[0])
