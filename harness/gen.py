"""Generators of states and requests (abstract operations of harness/ops.py).

Every random choice comes from the `random.Random` passed in.  Numeric choices are aimed at
boundaries read off the current state of the real database (remaining capacity, max_unit,
step_size, current and stale generations)."""
import math

from harness.ops import inv, MAX_INT

RPS = ['%08d-0000-0000-0000-000000000000' % i for i in range(1, 9)]
CONSUMERS = ['c%07d-0000-0000-0000-000000000000' % i for i in range(1, 5)]
AGGS = ['a%07d-0000-0000-0000-000000000000' % i for i in range(1, 4)]
STD_RCS = ['VCPU', 'MEMORY_MB', 'DISK_GB']
CUSTOM_RCS = ['CUSTOM_RC1', 'CUSTOM_RC2']
STD_TRAITS = ['HW_CPU_X86_AVX', 'MISC_SHARES_VIA_AGGREGATE', 'STORAGE_DISK_SSD']
CUSTOM_TRAITS = ['CUSTOM_T1', 'CUSTOM_T2']
PROJECTS = ['proj1', 'proj2']
USERS = ['user1', 'user2']
CTYPES = ['INSTANCE', 'MIGRATION']
RATIOS = [1.0, 1.0, 1.0, 0.5, 1.5, 16.0, 0.1, 0.7, 3.0 / 7, 2.0]
TOTALS = [1, 2, 4, 8, 10, 16, 100]

DEFAULT_WEIGHTS = {
    'rp_create': 10, 'rp_update': 6, 'rp_delete': 3, 'inv_set': 10, 'inv_add': 4, 'inv_update': 5,
    'inv_delete': 3, 'inv_delete_all': 1, 'trait_put': 2, 'trait_delete': 1, 'rp_traits_set': 4,
    'rp_traits_delete': 1, 'rc_post': 1, 'rc_put': 2, 'rc_rename': 1, 'rc_delete': 2, 'aggs_set': 4,
    'alloc_put': 20, 'alloc_post': 8, 'alloc_delete': 4, 'reshape': 4,
}

MV_BOUNDARIES = [0, 1, 7, 8, 11, 12, 13, 14, 18, 19, 20, 25, 26, 27, 28, 29, 33, 34, 36, 37, 38, 39]
MIN_MV = {'trait_put': 6, 'trait_delete': 6, 'rp_traits_set': 6, 'rp_traits_delete': 6, 'rc_post': 2,
          'rc_put': 7, 'rc_rename': 2, 'rc_delete': 2, 'aggs_set': 1, 'alloc_post': 13, 'reshape': 30,
          'inv_delete_all': 5}


def pick_mv(rng, op, lo=0):
    lo = max(lo, MIN_MV.get(op, 0))
    if rng.random() < 0.6:
        return 39
    c = [m for m in MV_BOUNDARIES if m >= lo]
    return rng.choice(c)


def rand_inv(rng, rc):
    total = rng.choice(TOTALS)
    reserved = rng.choice([0, 0, 0, 1, total, max(total - 1, 0)])
    reserved = min(reserved, total)
    return inv(rc, total, reserved=reserved, min_unit=rng.choice([1, 1, 1, 2]),
               max_unit=rng.choice([MAX_INT, MAX_INT, total, 1, 2, 4]),
               step_size=rng.choice([1, 1, 1, 2, 3]), ratio=rng.choice(RATIOS))


class View(object):
    """What the generator reads off the real database to aim its choices."""

    def __init__(self, dump):
        self.d = dump
        self.rps = dump['rps']
        self.invs = {}
        for (rp, rc, total, reserved, mi, ma, st, ratio) in dump['invs']:
            self.invs[(rp, rc)] = dict(total=total, reserved=reserved, min_unit=mi, max_unit=ma, step_size=st, ratio=ratio)
        self.used = {}
        self.by_consumer = {}
        for (rp, c, rc, used) in dump['allocs']:
            self.used[(rp, rc)] = self.used.get((rp, rc), 0) + used
            self.by_consumer.setdefault(c, []).append((rp, rc, used))
        self.consumers = dump['consumers']
        self.custom_rcs = [n for n, _ in dump['custom_rcs']]
        self.custom_traits = dump['custom_traits']

    def cap(self, k):
        i = self.invs[k]
        return (i['total'] - i['reserved']) * i['ratio']

    def remaining(self, k, consumer=None):
        mine = sum(u for (rp, rc, u) in self.by_consumer.get(consumer, []) if (rp, rc) == k)
        return int(math.floor(self.cap(k))) - (self.used.get(k, 0) - mine)


class Gen(object):
    def __init__(self, rng, weights=None, n_rps=8, mv_mode='mixed'):
        self.rng = rng
        self.w = dict(DEFAULT_WEIGHTS)
        if weights:
            self.w.update(weights)
        self.rp_pool = RPS[:n_rps]
        self.mv_mode = mv_mode
        self.name_ctr = 0

    def mv(self, op, lo=0):
        if self.mv_mode == 'latest':
            return 39
        return pick_mv(self.rng, op, lo)

    def gen_for(self, v, uuid):
        """current generation, sometimes stale or ahead"""
        g = v.rps.get(uuid, {}).get('gen', 0)
        r = self.rng.random()
        if r < 0.85:
            return g
        if r < 0.89:
            return 0          # the generation every client saw first (and a value that is false in Python)
        return max(0, g + self.rng.choice([-1, 1, -2]))

    def any_rp(self, v, existing=0.9):
        ex = list(v.rps)
        if ex and self.rng.random() < existing:
            return self.rng.choice(ex)
        return self.rng.choice(self.rp_pool)

    def respell(self, u, p=0.06):
        """now and then another spelling of a uuid that the schema's `format: uuid` accepts (upper case, no dashes,
        braces, urn:uuid:) - the service stores and compares the canonical form, so these name NO provider"""
        if u is None or self.rng.random() >= p:
            return u
        return self.rng.choice([u.upper(), u.replace('-', ''), '{%s}' % u, 'urn:uuid:%s' % u, u.replace('-', '').upper()])

    def rcs_available(self, v):
        return STD_RCS + v.custom_rcs

    def amount_for(self, v, k, consumer, share=None):
        rng = self.rng
        if k not in v.invs:
            return rng.choice([1, 2])
        i = v.invs[k]
        rem = v.remaining(k, consumer)
        if share:
            # a valid amount that leaves room for the other `share - 1` consumers of the same request
            top = min(rem // share, i['max_unit'])
            a = (top // i['step_size']) * i['step_size']
            if a >= i['min_unit'] and a >= 1:
                return rng.choice([a, i['step_size'] * max(1, -(-i['min_unit'] // i['step_size']))]) \
                    if i['step_size'] * max(1, -(-i['min_unit'] // i['step_size'])) <= a else a
        cands = [1, 1, 2, i['min_unit'], i['step_size'], i['step_size'] * 2, rem, rem, rem + 1, max(rem - 1, 1),
                 i['max_unit'] if i['max_unit'] < 1000 else 3, (i['max_unit'] + 1) if i['max_unit'] < 1000 else 5]
        a = rng.choice(cands)
        return max(1, min(a, MAX_INT))

    def consumer_req(self, v, mv, c=None, empty_ok=True, share=None, empty_from=28):
        rng = self.rng
        c = c or rng.choice(CONSUMERS)
        cur = v.consumers.get(c)
        r = rng.random()
        if share:
            r = r * 0.8       # requests meant to succeed as a whole carry the right generations
        if cur is None:
            gen = None if r < 0.9 else rng.choice([0, 1])
        else:
            gen = cur['gen'] if r < 0.85 else rng.choice([None, cur['gen'] + 1, max(cur['gen'] - 1, 0)])
        allocs = []
        if not (empty_ok and mv >= empty_from and rng.random() < 0.15):
            n = rng.choice([1, 1, 2, 2, 3])
            keys = list(v.invs)
            # one request placing the SAME class on several providers (per-(provider, class) bookkeeping of the capacity
            # check; usage of one provider must not be attributed to another)
            same_rc = None
            if keys and rng.random() < 0.3:
                by_rc = {}
                for k in keys:
                    by_rc.setdefault(k[1], []).append(k)
                multi = [ks for ks in by_rc.values() if len(ks) > 1]
                if multi:
                    same_rc = rng.choice(multi)
                    n = max(n, 2)
            seen = set()
            for _ in range(n):
                if same_rc and rng.random() < 0.85:
                    k = rng.choice(same_rc)
                elif keys and rng.random() < 0.9:
                    k = rng.choice(keys)
                else:
                    k = (self.any_rp(v, 0.7), rng.choice(self.rcs_available(v) + ['CUSTOM_NOPE']))
                if k in seen:
                    continue
                seen.add(k)
                allocs.append([k[0], k[1], self.amount_for(v, k, c, share)])
            # group by provider (a JSON object has one entry per provider)
            order = []
            for a in allocs:
                if a[0] not in order:
                    order.append(a[0])
            allocs = [a for rp in order for a in allocs if a[0] == rp]
        if cur is not None and rng.random() < 0.85:
            project, user, ctype = cur['project'], cur['user'], cur['ctype'] or rng.choice(CTYPES)
        else:
            project, user, ctype = rng.choice(PROJECTS), rng.choice(USERS), rng.choice(CTYPES)
        return {'uuid': c, 'project': project if mv >= 8 else None, 'user': user if mv >= 8 else None,
                'ctype': ctype if mv >= 38 else None, 'gen': gen if mv >= 28 else None, 'allocs': allocs}

    def op(self, v):
        rng = self.rng
        kinds = list(self.w)
        if len(v.rps) < 3 and self.w.get('rp_create') and rng.random() < 0.6:
            return self.g_rp_create(v)
        if v.rps and len(v.invs) < 2 and self.w.get('inv_set') and rng.random() < 0.5:
            return self.g_inv_set(v)
        o = rng.choices(kinds, weights=[self.w[k] for k in kinds])[0]
        return getattr(self, 'g_' + o)(v)

    # ---------------------------------------------------------------- providers
    def g_rp_create(self, v):
        rng = self.rng
        mv = self.mv('rp_create')
        free = [u for u in self.rp_pool if u not in v.rps]
        uuid = rng.choice(free) if free and rng.random() < 0.9 else rng.choice(self.rp_pool)
        self.name_ctr += 1
        name = 'n-%s' % uuid[:8] if rng.random() < 0.9 else rng.choice([r['name'] for r in v.rps.values()] or ['x'])
        parent = None
        if mv >= 14 and v.rps and rng.random() < 0.6:
            parent = self.any_rp(v, 0.95)
            if rng.random() < 0.03:
                parent = uuid
            parent = self.respell(parent)
        return {'op': 'rp_create', 'mv': mv, 'uuid': uuid, 'name': name, 'parent': parent}

    def g_rp_update(self, v):
        rng = self.rng
        mv = self.mv('rp_update')
        uuid = self.any_rp(v)
        cur = v.rps.get(uuid)
        name = cur['name'] if cur and rng.random() < 0.6 else 'n-%s-%d' % (uuid[:8], rng.randrange(3))
        if rng.random() < 0.05 and v.rps:
            name = rng.choice([r['name'] for r in v.rps.values()])
        op = {'op': 'rp_update', 'mv': mv, 'uuid': uuid, 'name': name, 'has_parent': False, 'parent': None}
        if mv >= 14 and rng.random() < 0.75:
            op['has_parent'] = True
            r = rng.random()
            if r < 0.2:
                op['parent'] = None
            elif r < 0.3 and cur:
                op['parent'] = cur['parent']
            else:
                op['parent'] = self.any_rp(v, 0.95)
                if rng.random() < 0.25 and cur:
                    # aim at the loop check: the provider itself or something below it
                    below = [u for u, r in v.rps.items() if r.get('root') == cur.get('root') and u != uuid]
                    op['parent'] = rng.choice(below + [uuid])
            op['parent'] = self.respell(op['parent'], 0.1)
        return op

    def g_rp_delete(self, v):
        return {'op': 'rp_delete', 'mv': self.mv('rp_delete'), 'uuid': self.any_rp(v)}

    # ---------------------------------------------------------------- inventories
    def g_inv_set(self, v):
        rng = self.rng
        uuid = self.any_rp(v, 0.95)
        rcs = self.rcs_available(v)
        n = rng.choice([0, 1, 1, 2, 2, 3])
        chosen = rng.sample(rcs, min(n, len(rcs)))
        if rng.random() < 0.03:
            chosen.append('CUSTOM_NOPE')
        invs = []
        for rc in chosen:
            k = (uuid, rc)
            if k in v.invs and rng.random() < 0.4:
                # shrink or grow an existing inventory around its usage
                i = dict(v.invs[k])
                used = v.used.get(k, 0)
                total = max(1, rng.choice([used, used + 1, max(used - 1, 1), i['total'], i['total'] + 1]))
                invs.append(inv(rc, total, reserved=min(i['reserved'], total), min_unit=i['min_unit'], max_unit=i['max_unit'],
                                step_size=i['step_size'], ratio=rng.choice([i['ratio'], 1.0])))
            else:
                invs.append(rand_inv(rng, rc))
        return {'op': 'inv_set', 'mv': self.mv('inv_set'), 'uuid': uuid, 'gen': self.gen_for(v, uuid), 'invs': invs}

    def g_inv_add(self, v):
        uuid = self.any_rp(v, 0.95)
        rc = self.rng.choice(self.rcs_available(v) + (['CUSTOM_NOPE'] if self.rng.random() < 0.1 else []))
        return {'op': 'inv_add', 'mv': self.mv('inv_add'), 'uuid': uuid, 'inv': rand_inv(self.rng, rc)}

    def g_inv_update(self, v):
        rng = self.rng
        keys = list(v.invs)
        if keys and rng.random() < 0.85:
            uuid, rc = rng.choice(keys)
        else:
            uuid, rc = self.any_rp(v), rng.choice(self.rcs_available(v) + ['CUSTOM_NOPE'])
        return {'op': 'inv_update', 'mv': self.mv('inv_update'), 'uuid': uuid, 'gen': self.gen_for(v, uuid),
                'inv': rand_inv(rng, rc)}

    def g_inv_delete(self, v):
        rng = self.rng
        keys = list(v.invs)
        if keys and rng.random() < 0.85:
            uuid, rc = rng.choice(keys)
        else:
            uuid, rc = self.any_rp(v), rng.choice(self.rcs_available(v) + ['CUSTOM_NOPE'])
        return {'op': 'inv_delete', 'mv': self.mv('inv_delete'), 'uuid': uuid, 'rc': rc}

    def g_inv_delete_all(self, v):
        return {'op': 'inv_delete_all', 'mv': self.mv('inv_delete_all'), 'uuid': self.any_rp(v)}

    # ---------------------------------------------------------------- traits / classes / aggregates
    def g_trait_put(self, v):
        return {'op': 'trait_put', 'mv': self.mv('trait_put'), 'name': self.rng.choice(CUSTOM_TRAITS)}

    def g_trait_delete(self, v):
        return {'op': 'trait_delete', 'mv': self.mv('trait_delete'),
                'name': self.rng.choice(CUSTOM_TRAITS + CUSTOM_TRAITS + STD_TRAITS[:1] + ['CUSTOM_NOPE'])}

    def g_rp_traits_set(self, v):
        rng = self.rng
        uuid = self.any_rp(v, 0.95)
        pool = STD_TRAITS + v.custom_traits + (['CUSTOM_T1'] if rng.random() < 0.1 else [])
        ts = rng.sample(pool, rng.randrange(0, min(4, len(pool)) + 1))
        return {'op': 'rp_traits_set', 'mv': self.mv('rp_traits_set'), 'uuid': uuid, 'gen': self.gen_for(v, uuid), 'traits': ts}

    def g_rp_traits_delete(self, v):
        return {'op': 'rp_traits_delete', 'mv': self.mv('rp_traits_delete'), 'uuid': self.any_rp(v)}

    def g_rc_post(self, v):
        return {'op': 'rc_post', 'mv': self.mv('rc_post'), 'name': self.rng.choice(CUSTOM_RCS + ['CUSTOM_RC3'])}

    def g_rc_put(self, v):
        return {'op': 'rc_put', 'mv': self.mv('rc_put'), 'name': self.rng.choice(CUSTOM_RCS)}

    def g_rc_rename(self, v):
        rng = self.rng
        return {'op': 'rc_rename', 'mv': rng.choice([2, 6]), 'old': rng.choice(CUSTOM_RCS + ['VCPU', 'CUSTOM_RC3']),
                'new': rng.choice(CUSTOM_RCS + ['CUSTOM_RC3'])}

    def g_rc_delete(self, v):
        return {'op': 'rc_delete', 'mv': self.mv('rc_delete'),
                'name': self.rng.choice(CUSTOM_RCS + CUSTOM_RCS + ['VCPU', 'CUSTOM_RC3', 'CUSTOM_NOPE'])}

    def g_aggs_set(self, v):
        rng = self.rng
        mv = self.mv('aggs_set')
        uuid = self.any_rp(v, 0.95)
        aggs = rng.sample(AGGS, rng.randrange(0, 3))
        return {'op': 'aggs_set', 'mv': mv, 'uuid': uuid, 'gen': self.gen_for(v, uuid) if mv >= 19 else None, 'aggs': aggs}

    # ---------------------------------------------------------------- allocations
    def g_alloc_put(self, v):
        mv = self.mv('alloc_put')
        return {'op': 'alloc_put', 'mv': mv, 'c': self.consumer_req(v, mv)}

    def g_alloc_post(self, v):
        rng = self.rng
        mv = self.mv('alloc_post')
        cs = rng.sample(CONSUMERS, rng.choice([1, 2, 2, 3]))
        # half of the multi-consumer requests are built to succeed as a whole (amounts share the remaining room)
        share = len(cs) if rng.random() < 0.5 else None
        # (an entry of POST /allocations may be empty from 1.13 on, one of PUT only from 1.28)
        return {'op': 'alloc_post', 'mv': mv, 'cs': [self.consumer_req(v, mv, c, share=share, empty_from=13) for c in cs]}

    def g_alloc_delete(self, v):
        rng = self.rng
        have = list(v.by_consumer)
        c = rng.choice(have) if have and rng.random() < 0.85 else rng.choice(CONSUMERS)
        return {'op': 'alloc_delete', 'mv': self.mv('alloc_delete'), 'consumer': c}

    def g_reshape(self, v):
        """move inventory (and the allocations on it) between providers, or change inventories of
        providers under their consumers"""
        rng = self.rng
        mv = self.mv('reshape')
        ex = list(v.rps)
        if not ex:
            return self.g_rp_create(v)
        # directed shape (15 %): a reshape that is rejected LATE - it drops a class some consumer outside the request
        # still holds (InventoryInUse at the final inventory replacement, after the allocations were written) while creating
        # a new consumer whose own allocations are fine
        held = sorted({(rp, rc) for c_, lst_ in v.by_consumer.items() for (rp, rc, n_) in lst_})
        fresh = [c_ for c_ in CONSUMERS if c_ not in v.consumers]
        if held and fresh and rng.random() < 0.15:
            p_, k_ = rng.choice(held)
            keep = [(k[1], i) for k, i in v.invs.items() if k[0] == p_ and k[1] != k_]
            lst = [inv(rc, i['total'], reserved=i['reserved'], min_unit=i['min_unit'], max_unit=i['max_unit'],
                       step_size=i['step_size'], ratio=i['ratio']) for rc, i in keep]
            elsewhere = [k for k in v.invs if k[0] != p_ or k[1] != k_]
            allocs = []
            if elsewhere:
                kk = rng.choice(elsewhere)
                allocs = [[kk[0], kk[1], max(1, self.amount_for(v, kk, fresh[0], share=3))]]
            invs_ = [{'uuid': p_, 'gen': v.rps[p_]['gen'], 'invs': lst}]
            if allocs and allocs[0][0] != p_:
                u2 = allocs[0][0]
                cur2 = [inv(k[1], i['total'], reserved=i['reserved'], min_unit=i['min_unit'], max_unit=i['max_unit'],
                            step_size=i['step_size'], ratio=i['ratio']) for k, i in v.invs.items() if k[0] == u2]
                invs_.append({'uuid': u2, 'gen': v.rps[u2]['gen'], 'invs': cur2})
            return {'op': 'reshape', 'mv': mv, 'invs': invs_,
                    'cs': [{'uuid': fresh[0], 'project': rng.choice(PROJECTS), 'user': rng.choice(USERS),
                            'ctype': rng.choice(CTYPES) if mv >= 38 else None, 'gen': None, 'allocs': allocs}]}
        rps = rng.sample(ex, min(len(ex), rng.choice([1, 2, 2])))
        invs = []
        new_keys = []
        for u in rps:
            cur = [(k[1], i) for k, i in v.invs.items() if k[0] == u]
            lst = []
            for rc, i in cur:
                if rng.random() < 0.7:
                    lst.append(inv(rc, i['total'], reserved=i['reserved'], min_unit=i['min_unit'], max_unit=i['max_unit'],
                                   step_size=i['step_size'], ratio=i['ratio']))
            if rng.random() < 0.6:
                rc = rng.choice(self.rcs_available(v))
                if all(x['rc'] != rc for x in lst):
                    lst.append(rand_inv(rng, rc))
            for x in lst:
                new_keys.append((u, x['rc'], x))
            invs.append({'uuid': u, 'gen': self.gen_for(v, u), 'invs': lst})
        cs = []
        for c in rng.sample(CONSUMERS, rng.choice([0, 1, 2])):
            cur = v.consumers.get(c)
            r = rng.random()
            gen = (cur['gen'] if cur else None) if r < 0.9 else rng.choice([None, 0, 5])
            allocs = []
            if new_keys and rng.random() < 0.85:
                seen = set()
                for (u, rc, x) in rng.sample(new_keys, min(len(new_keys), rng.choice([1, 2]))):
                    if (u, rc) in seen:
                        continue
                    seen.add((u, rc))
                    allocs.append([u, rc, max(1, rng.choice([1, x['min_unit'], x['step_size'], x['total']]))])
                order = []
                for a in allocs:
                    if a[0] not in order:
                        order.append(a[0])
                allocs = [a for rp in order for a in allocs if a[0] == rp]
            if cur is not None and rng.random() < 0.8:
                project, user, ctype = cur['project'], cur['user'], cur['ctype'] or rng.choice(CTYPES)
            else:
                # a new consumer, or an existing one handed to another project / user / type by the reshape
                project, user, ctype = rng.choice(PROJECTS), rng.choice(USERS), rng.choice(CTYPES)
            cs.append({'uuid': c, 'project': project, 'user': user, 'ctype': ctype if mv >= 38 else None, 'gen': gen,
                       'allocs': allocs})
        return {'op': 'reshape', 'mv': mv, 'invs': invs, 'cs': cs}
