"""Fold the results of `harness/seedtest.py` runs (logs of the form `Cxx exit=N wall=Ns`) into
seeded/<id>/meta.json ("caught_by") and write seeded/MATRIX.md.
   python harness/seedmatrix.py <logdir with re_<seed id>.log files>"""
import glob
import json
import os
import re
import sys

ROOT = os.path.dirname(os.path.dirname(os.path.abspath(__file__)))


def main():
    logdir = sys.argv[1] if len(sys.argv) > 1 else None
    rows = []
    for d in sorted(glob.glob(os.path.join(ROOT, 'seeded', 'C*-*'))):
        name = os.path.basename(d)
        mp = os.path.join(d, 'meta.json')
        meta = json.load(open(mp))
        if logdir:
            lp = os.path.join(logdir, 're_%s.log' % name)
            if os.path.exists(lp):
                log = open(lp).read()
                res = {m.group(1): int(m.group(2)) for m in re.finditer(r'^(C\d\d) exit=(\d+)', log, flags=re.M)}
                sigs = sorted({re.sub(r'^.*replays/', '', l).strip() for l in log.split('\n') if 'VIOLATION' in l})
                meta['checks_run_final'] = res
                meta['caught_by'] = sorted(k for k, v in res.items() if v == 1)
                meta['violation_replays_final'] = sigs[:6]
                json.dump(meta, open(mp, 'w'), indent=1)
        first = meta.get('checks_run_first_round', {})
        final = meta.get('checks_run_final', first)
        caught = sorted(set(meta.get('caught_by', [k for k, v in final.items() if v == 1])) |
                        {k for k, v in first.items() if v == 1})
        concrete = any('no-failing-input-found' not in s for s in meta.get('violation_replays_final', ['x']))
        rows.append((name, meta.get('breaks_property'), (meta.get('summary') or '')[:150].replace('|', '/').replace('\n', ' '),
                     (meta.get('needs') or '')[:110].replace('|', '/').replace('\n', ' '),
                     ', '.join('%s:%s' % (k, 'caught' if v == 1 else 'missed') for k, v in sorted(first.items())),
                     ', '.join('%s:%s' % (k, 'caught' if v == 1 else 'MISSED') for k, v in sorted(final.items())),
                     'concrete replay' if concrete else 'no-failing-input-found only'))
    with open(os.path.join(ROOT, 'seeded', 'MATRIX.md'), 'w') as f:
        f.write('# Seeded changes and the checks that catch them\n\n'
                'Each row is one change written by an independent sub-agent that saw only the property text and a scratch\n'
                'worktree (see DESIGN.md 11.6).  "first run" = the checks as they were when the change arrived; "now" = the\n'
                'committed checks (quick tier, `harness/seedtest.py`, scratch worktree through PLACEMENT_REPO).\n\n'
                '| id | property | change | needs | first run | now | evidence |\n|---|---|---|---|---|---|---|\n')
        for r in rows:
            f.write('| %s |\n' % ' | '.join(r))
    n = len(rows)
    missed = [r[0] for r in rows if 'MISSED' in r[5] and 'caught' not in r[5]]
    print('%d seeds, not caught by the check of their own property now: %s' % (n, [r[0] for r in rows if 'MISSED' in r[5]]))


if __name__ == '__main__':
    main()
