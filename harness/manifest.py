"""Generate MANIFEST.json from the META of every harness/props/cNN.py that is ready (its Lean
module exists).  Properties without a ready check are listed under not_applicable with the reason."""
import importlib
import json
import os
import sys

ROOT = os.path.dirname(os.path.dirname(os.path.abspath(__file__)))
sys.path.insert(0, ROOT)

# checks handed over and verified green on the unchanged tree
READY = set(open(os.path.join(ROOT, 'harness', 'READY')).read().split())

PENDING_REASON = 'check not built yet in this revision (work in progress, see DESIGN.md section 10); no claim is made'


def main():
    props = [json.loads(l)['id'] for l in open(os.path.join(ROOT, 'properties.jsonl'))]
    checks, na = [], []
    for pid in props:
        modp = os.path.join(ROOT, 'harness', 'props', pid.lower() + '.py')
        ready = False
        if os.path.exists(modp):
            mod = importlib.import_module('harness.props.' + pid.lower())
            meta = mod.META
            lm = meta.get('lean_module')
            ready = lm is not None and os.path.exists(os.path.join(ROOT, 'lean', lm.replace('.', '/') + '.lean')) \
                and pid in READY
        if not ready:
            na.append({'property_id': pid, 'reason': PENDING_REASON})
            continue
        checks.append({
            'property_id': pid,
            'quick_cmd': './check %s --tier quick' % pid,
            'thorough_cmd': './check %s --tier thorough' % pid,
            'evidence_file': 'evidence/%s.json' % pid,
            'replay_cmd_template': './check replay {path}',
            'engine': 'lean4+correspondence',
            'level_claimed': {'category': meta.get('category', 'proof'), 'text': meta['text'], 'design_ref': meta.get('design_ref', '')},
            'level_note': meta['level_note'],
            'technique': meta['technique'],
        })
    man = {
        'version': 1,
        'setup_cmd': './setup.sh',
        'hooks': {
            'guard': 'PLACEMENT_VERIF',
            'enable': 'no source hooks exist: the harness drives the unmodified WSGI application in-process '
                      '(scheduler, fault and crash injection wrap oslo.db / SQLAlchemy from outside)',
            'baseline_off_cmd': 'cd /repo && /venv/bin/python -m pytest -ra -q -p no:cacheprovider --timeout=900 --continue-on-collection-errors',
            'source_commits': [],
            'add_only': True,
        },
        'engines': [{'name': 'lean4+correspondence', 'path': 'lean/', 'serves_properties': [c['property_id'] for c in checks],
                     'kind_free_text': 'Lean 4.33 library Placement (model, generated tables, theorems) + compiled model driver; '
                                       'Python harness running the real application in-process'}],
        'checks': checks,
        'not_applicable': na,
        'notes': 'fix: commits in /repo (genuine defects found by these checks): see KNOWN_FINDINGS.json entries with status "fixed".',
    }
    with open(os.path.join(ROOT, 'MANIFEST.json'), 'w') as f:
        json.dump(man, f, indent=1)
    print('checks:', [c['property_id'] for c in checks])
    print('pending:', [x['property_id'] for x in na])


if __name__ == '__main__':
    main()
