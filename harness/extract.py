"""Translator: regenerate lean/Placement/Gen/*.lean from the working tree of /repo.

Each module in harness/extractors/ exposes `generate() -> {relative_lean_filename: text}` and raises
ExtractError (fails closed) when a site it translates can no longer be located or understood.
Files are rewritten only when their content changes so that `lake build` stays a no-op."""
import importlib
import os
import pkgutil
import sys
import traceback

ROOT = os.path.dirname(os.path.dirname(os.path.abspath(__file__)))
sys.path.insert(0, ROOT)
GEN = os.path.join(ROOT, 'lean', 'Placement', 'Gen')


def main():
    import harness.extractors as pkg
    os.makedirs(GEN, exist_ok=True)
    failed = 0
    only = sys.argv[1:]
    for m in sorted(pkgutil.iter_modules(pkg.__path__), key=lambda m: m.name):
        if only and m.name not in only:
            continue
        try:
            mod = importlib.import_module('harness.extractors.' + m.name)
            files = mod.generate()
        except BaseException as e:
            failed += 1
            print('EXTRACT-ERROR %s: %s' % (m.name, e))
            traceback.print_exc()
            continue
        for name, text in files.items():
            path = os.path.join(GEN, name)
            old = None
            if os.path.exists(path):
                with open(path) as f:
                    old = f.read()
            if old != text:
                with open(path, 'w') as f:
                    f.write(text)
                print('wrote', os.path.relpath(path, ROOT))
    return 1 if failed else 0


if __name__ == '__main__':
    sys.exit(main())
